"""Tie C, third extension (tag mem): the constructs calgebra/mutable/memory.py and calgebra/mutable/__init__.py
need on top of pysrc.py.  Every function here is called from a small hook in pysrc.Tr and returns None when
the construct is not one of these (the caller then goes on as before); anything half-recognised raises
Unsupported — fail closed, as in pysrc.py.

Constructs (the readings of Python they rely on are listed as TRUSTED readings in srcspecs_mem.py):

  kind "proc" with spec["ret"]      a procedure that also returns a value: the result is the tuple of the final
                                    values of spec["state"] followed by the value; falling off the end (Python
                                    would return None) is Unsupported
  spec["statecalls"]                self._m(args) for another translated procedure with a result: the state
                                    variables it updates are re-bound in front of the statement
                                        let '(v1, .., vn, r1_) := <call text> in ..
                                    (res=True: res_bind .. (fun '(v1, .., vn, r1_) => ..)); accepted only as a
                                    statement, or unconditionally in the right-hand side of an assignment / a
                                    return / the argument of xs.extend(..)  (pysrc.can_hoist)
  try: <effect>; return <total expression>  except E: H
                                    with the effect declared raises=(E, <test that it succeeds>)
                                        if <test> then [effect; return ..] else [H; rest]
                                    — the expression returned inside the try may only be built from names,
                                    constants, list literals and calls the spec declares noraise
  for a, b in <L:T>  /  for a, b in d.items()  /  for i, (a, b) in enumerate(<L:T>)      (T a declared pair type)
                                    iter_for (fun state '(a, b) => ..) ..   ('(i, (a, b)) over py_enumerate)
       v.attr = e  for a loop target v of a declared OBJECT type (spec["objects"]: type -> {attr: setter}), the
       loop running over a state variable L:
                                        let v := (setter v e) in
                                        let L := (py_set_index L i_ (a, v)) in     (i_: the position, from
                                                                                    py_enumerate)
       Such a store, and any effect statement on the list being iterated, must be followed at once by `return`
       (the loop runs over the list as it was when the loop started).
  match x: case C(): .. case _ if g: .. case _: ..        x a name of a sum type (spec["sums"]); `case C():` is
                                    isinstance(x, C); per constructor only the first case that applies is
                                    translated (the spec's table must decide every test)
  xs.extend(e)                      let xs := xs ++ e in
  d[k] = v, d.update(e), {**a, **b}, dict(a), d.get(k), truthiness of a dict     (Model/LoopMem.v)
  X | {e}                           spec binops key (type of X, "|{}", type of e)
  E("..") / E(f"..") as a value     an exception object, kept as its class (type EXN)
  x: T  without a value             declares the type of the local x (spec["annotations"])
  `if x:` for x : T | None          truthy_opt <spec["truthy"][T]> x
  k in xs / k not in xs             for xs : L:T with spec["eqbs"][T]:  existsb (eqb k) xs
  spec["casts"][(T1, T2)]           a value of type T1 used where T2 is wanted: the Coq text the spec gives
  spec["abstract_blocks"]           a run of statements accepted only with exactly the given source text, read as
                                    `let x := <spec text> in` for each name it binds (a function of the names it
                                    reads; it has no effect)
  def f(.., **kw)                   with spec["kwarg"] = the dict type of kw
"""
from __future__ import annotations

import ast

from . import pysrc

pysrc.EMITTED |= {"i_", "py_pop", "eq_opt", "truthy_opt", "dict_get_opt", "dict_update", "mkWR", "wres",
                  "AIvl", "APat", "ATimeline", "AMany", "RIvl", "RMany", "list_del_nat"}


def U(msg):
    return pysrc.Unsupported(msg)


# ------------------------------------------------------------------------------------------------ types
def coerce_hook(tr, text, ty, want):
    if ty == "NONE" and isinstance(want, str) and want.startswith("O:"):
        return "None"
    if isinstance(want, str) and want == "O:" + ty:
        return f"(Some {text})"
    if (ty, want) in tr.spec.get("casts", {}):
        return tr.spec["casts"][(ty, want)].format(text)
    if want == "B" and ty in tr.dicts:
        return f"(nonempty {text})"                      # a dict is truthy iff it has a pair
    if want == "B" and ty.startswith("O:") and ty[2:] in tr.spec.get("truthy", {}):
        return f"(truthy_opt {tr.spec['truthy'][ty[2:]]} {text})"
    return None


def dict_of_name(tr, node, env):
    """a plain local name of a declared dict type -> (python name, dict type) or None"""
    if isinstance(node, ast.Name) and node.id in env and env[node.id] in tr.dicts:
        return node.id, env[node.id]
    return None


# ------------------------------------------------------------------------------------------------ expressions
def expr_hook(tr, e, env, want):
    if isinstance(e, ast.Call):
        fn = ast.unparse(e.func)
        if fn in tr.spec.get("statecalls", {}):
            return state_call(tr, fn, e, env)
        if isinstance(e.func, ast.Name) and fn in pysrc.EXCEPTIONS and fn not in env and "EXN" in tr.types:
            # an exception object built from a message: kept as its class
            if e.keywords or len(e.args) != 1:
                raise U(f"{fn}(..) with other than one message")
            check_message(tr, e.args[0], env)
            return fn, "EXN"
        if fn == "replace" and fn in tr.calls and "replace" not in env:
            return tr.apply_spec(tr.pick_spec(tr.calls[fn], fn, e), fn, e.args, e.keywords, env)
        if fn == "dict" and "dict" not in env and len(e.args) == 1 and not e.keywords:
            t, ty = tr.expr0(e.args[0], env)
            if ty not in tr.dicts:
                raise U(f"dict() of {ty}")
            return t, ty                                  # a copy of an (immutable) value
        if isinstance(e.func, ast.Attribute) and e.func.attr == "get" and len(e.args) == 1 and not e.keywords \
                and ast.unparse(e.func) not in tr.spec.get("calls", {}):      # (a call the spec declares is the spec's)
            d, dty = tr.expr0(e.func.value, env)
            if dty in tr.dicts:
                dd = tr.dicts[dty]
                if not dd["val"].startswith("O:"):
                    raise U(f".get on a dict of {dd['val']}")
                k = typed_expr(tr, e.args[0], env, dd["key"])
                return f"(dict_get_opt {dd['eqb']} {k} {d})", dd["val"]
        return None
    if isinstance(e, ast.Dict):
        # {**a, **b, ..}
        if not e.keys or any(k is not None for k in e.keys):
            raise U("dict literal other than {**a, **b}")
        parts = [tr.expr0(v, env) for v in e.values]
        dty = parts[0][1]
        if dty not in tr.dicts or any(ty != dty for _, ty in parts):
            raise U("{**a, **b} of values that are not dicts of one declared type")
        t = parts[0][0]
        for p, _ in parts[1:]:
            t = f"(dict_update {tr.dicts[dty]['eqb']} {t} {p})"
        return t, dty
    if isinstance(e, ast.BinOp) and isinstance(e.op, ast.BitOr) and isinstance(e.right, ast.Set) \
            and len(e.right.elts) == 1:
        a, ta = tr.expr0(e.left, env)
        for (t1, op, t2), (fn, rty) in tr.binops.items():
            if t1 == ta and op == "|{}":
                b, _ = tr.expr(e.right.elts[0], env, t2)
                return f"({fn} {a} {b})", rty
        raise U(f"{ta} | {{..}}")
    if isinstance(e, ast.Compare) and len(e.ops) == 1 and isinstance(e.ops[0], (ast.In, ast.NotIn)):
        b, tb = tr.expr0(e.comparators[0], env)
        if tr.is_list(tb) and tr.item_of(tb) in tr.spec.get("eqbs", {}):
            ity = tr.item_of(tb)
            a = typed_expr(tr, e.left, env, ity)
            r = f"(existsb ({tr.spec['eqbs'][ity]} {a}) {b})"
            return (r if isinstance(e.ops[0], ast.In) else f"(negb {r})"), "B"
        return None
    if isinstance(e, ast.List) and not e.elts and want is not None and tr.is_list(want) and \
            " " in tr.coq_type(tr.item_of(want)):
        return f"(@nil ({tr.coq_type(tr.item_of(want))}))", want     # an empty list of lists / of pairs
    return None


def typed_expr(tr, e, env, ty):
    """an expression of type ty; a string literal the spec declares (spec["strconsts"]: literal -> (coq, type))
    is that constant"""
    if isinstance(e, ast.Constant) and isinstance(e.value, str):
        t, cty = tr.spec.get("strconsts", {}).get(e.value, (None, None))
        if cty != ty:
            raise U(f"string literal {e.value!r} used as a {ty}")
        return t
    return tr.expr(e, env, ty)[0]


def check_message(tr, m, env):
    """the argument of an exception constructor: a string literal, or an f-string over expressions that
    are in scope (formatting them has no effect on the modelled state)"""
    if isinstance(m, ast.Constant) and isinstance(m.value, str):
        return
    if isinstance(m, ast.JoinedStr):
        for v in m.values:
            if isinstance(v, ast.Constant):
                continue
            if not (isinstance(v, ast.FormattedValue) and v.format_spec is None and pysrc.is_path(v.value)):
                raise U("f-string part that is not a plain name / attribute")
            tr.expr0(v.value, env)
        return
    raise U("exception message that is not a string literal or an f-string")


def state_call(tr, fn, e, env):
    sc = tr.spec["statecalls"][fn]
    tr.can_hoist(fn)
    if tr.loop_depth and sc.get("res"):
        raise U(f"{fn} returns a res: only outside loops")
    if sc.get("res") and (not tr.res or tr.plain):
        raise U(f"{fn} returns a res: only in a function with a res result")
    if any("@" + v not in env for v in sc["vars"]):
        raise U(f"{fn} updates a variable that is not a state variable")
    if e.keywords or len(e.args) != len(sc["args"]):
        raise U(f"call shape of {fn}")
    ts = [tr.expr(a, env, t)[0] for a, t in zip(e.args, sc["args"])]
    if sc.get("fuel"):
        tr.uses_fuel = True
    var = tr.new_var("r")
    tr.hoist.append(dict(kind="state", text=sc["call"].format(*ts), var=var, vars=list(sc["vars"]),
                         res=bool(sc.get("res"))))
    return var, sc["ret"]


def hoist_state(h, pad):
    """-> (prefix, postfix) for a hoisted state call"""
    pat = "'(" + ", ".join(h["vars"] + [h["var"]]) + ")"
    if h["res"]:
        return f"{pad}res_bind {h['text']} (fun {pat} =>\n", ")"
    return f"{pad}let {pat} := {h['text']} in\n", ""


# ------------------------------------------------------------------------------------------------ statements
def total_value(tr, e, env):
    """may this expression be evaluated inside a `try` without raising?  names, attributes of names,
    constants, list literals, calls the spec declares noraise (exception constructors included)"""
    if isinstance(e, (ast.Name, ast.Constant)):
        return True
    if isinstance(e, ast.Attribute):
        return pysrc.is_path(e)
    if isinstance(e, ast.List):
        return all(total_value(tr, x, env) for x in e.elts)
    if isinstance(e, ast.JoinedStr):
        return all(isinstance(v, ast.Constant) or
                   (isinstance(v, ast.FormattedValue) and v.format_spec is None and pysrc.is_path(v.value))
                   for v in e.values)
    if isinstance(e, ast.Call):
        fn = ast.unparse(e.func)
        if fn in env:
            return False
        if fn in tr.spec.get("noraise", ()) or (fn in pysrc.EXCEPTIONS and isinstance(e.func, ast.Name)):
            return all(total_value(tr, a, env) for a in e.args) and \
                all(k.arg is not None and total_value(tr, k.value, env) for k in e.keywords)
    return False


def try_effect_form(tr, s):
    """try: <effect declared to raise E>; return <expr>   except E: H     -> (effect stmt, return stmt) or None"""
    if not isinstance(s, ast.Try) or s.orelse or s.finalbody or len(s.handlers) != 1 or len(s.body) != 2:
        return None
    h = s.handlers[0]
    if h.name is not None or not isinstance(h.type, ast.Name) or h.type.id not in pysrc.EXCEPTIONS:
        return None
    b, r = s.body
    ef = tr.effect_of(b)
    if ef is None or not isinstance(ef[2], dict) or not ef[2].get("raises") or ef[2]["raises"][0] != h.type.id:
        return None
    if not (isinstance(r, ast.Return) and r.value is not None):
        return None
    return b, r


def stmt_hook(tr, s, rest, env, fin, ind):
    pad = "  " * ind
    spec = tr.spec
    for ab in spec.get("abstract_blocks", []):
        # a run of statements accepted only with exactly this text, read as a function of the names it reads
        n = len(ab["stmts"])
        if ast.unparse(s) == ab["stmts"][0] and len(rest) >= n - 1 and \
                all(ast.unparse(x) == tx for x, tx in zip(rest[:n - 1], ab["stmts"][1:])):
            if tr.loop_depth:
                raise U("an abstracted block inside a loop")
            for name, ty in ab["reads"]:
                if env.get(name) != ty:
                    raise U(f"the abstracted block reads {name}, which is not a {ty} here")
            env2, text = env, ""
            for name, coq, ty in ab["binds"]:
                env2 = tr.bind(env2, name, ty)
                text += f"{pad}let {pysrc.cname(name)} := {coq} in\n"
            return text + tr.block(rest[n - 1:], env2, fin, ind)
    if isinstance(s, ast.AnnAssign) and s.value is None and isinstance(s.target, ast.Name):
        # `x: T` declares the type of a local
        ty = tr.annotations.get(ast.unparse(s.annotation))
        if ty is None:
            raise U(f"annotation {ast.unparse(s.annotation)} (declare it in the spec)")
        if s.target.id in env and env[s.target.id] != ty:
            raise U(f"{s.target.id} re-declared")
        tr.declared[s.target.id] = ty
        return tr.block(rest, env, fin, ind)
    if isinstance(s, ast.Return) and s.value is not None and tr.kind == "proc" and spec.get("ret"):
        (t, _), hs = tr.hoisted(s.value, env, lambda: tr.expr(s.value, env, spec["ret"]))
        pre, post, env2 = tr.hoist_prefix(hs, env, pad)
        return pre + pad + fin(env2, "return", t) + post
    if isinstance(s, ast.Try):
        form = try_effect_form(tr, s)
        if form is None:
            return None
        b, r = form
        if tr.loop_depth:
            raise U("try around an effect inside a loop")
        key, c, how = tr.effect_of(b)
        exc, present = how["raises"]
        if key is None or c.keywords or len(c.args) != len(how["args"]) or how.get("vars") or how.get("kwmap"):
            raise U("try around an effect: call shape")
        if not total_value(tr, r.value, env):
            raise U("try: effect; return <an expression that might raise>")
        ts = [tr.expr(a, env, t)[0] for a, t in zip(c.args, how["args"])]
        test = present.format(*ts, var=pysrc.cname(key))
        upd = how["update"].format(*ts, var=pysrc.cname(key))
        env_ok = dict(env)
        env_ok[key] = tr.genparams[key[1:]]
        ok = f"{pad}  let {pysrc.cname(key)} := {upd} in\n" + tr.block([r], env_ok, fin, ind + 1)
        hb = tr.block(list(s.handlers[0].body) + rest, env, fin, ind + 1)
        return f"{pad}if {test} then\n{ok}\n{pad}else\n{hb}"
    if isinstance(s, ast.Match):
        return match_stmt(tr, s, rest, env, fin, ind)
    if isinstance(s, ast.For) and isinstance(s.target, ast.Tuple) and not tr.spec.get("for_r"):
        return for_tuple(tr, s, rest, env, fin, ind)      # (spec for_r: the res-aware loop of the metrics extension)
    if isinstance(s, ast.Assign) and len(s.targets) == 1 and isinstance(s.targets[0], ast.Subscript):
        # d[k] = v
        tg = s.targets[0]
        dn = dict_of_name(tr, tg.value, env)
        if dn is None:
            return None
        name, dty = dn
        check_local(tr, name)
        dd = tr.dicts[dty]
        k = typed_expr(tr, tg.slice, env, dd["key"])
        (v, _), hs = tr.hoisted(s.value, env, lambda: tr.expr(s.value, env, dd["val"]))
        pre, post, env2 = tr.hoist_prefix(hs, env, pad)
        return pre + tr.assign(name, f"(dict_set {dd['eqb']} {k} {v} {pysrc.cname(name)})", dty, env2, pad,
                               rest, fin, ind) + post
    if isinstance(s, ast.Assign) and len(s.targets) == 1 and isinstance(s.targets[0], ast.Attribute) \
            and isinstance(s.targets[0].value, ast.Name) and s.targets[0].value.id in env.get("$objloop", {}):
        return obj_store(tr, s, rest, env, fin, ind)
    if isinstance(s, ast.Expr) and isinstance(s.value, ast.Call) and isinstance(s.value.func, ast.Attribute) \
            and isinstance(s.value.func.value, ast.Name) and s.value.func.attr in ("extend", "update") \
            and ast.unparse(s.value.func) not in tr.effects:
        c = s.value
        name = c.func.value.id
        if name not in env or c.keywords or len(c.args) != 1:
            raise U(f"statement {ast.unparse(s)[:80]}")
        check_local(tr, name)
        ty = env[name]
        if c.func.attr == "extend":
            if not tr.is_list(ty) or ty == "FS" or tr.item_of(ty) in tr.records:
                raise U(f"extend of {ty}")
            (x, _), hs = tr.hoisted(c, env, lambda: tr.expr(c.args[0], env, ty))
            text = f"({pysrc.cname(name)} ++ {x})"
        else:
            if ty not in tr.dicts:
                raise U(f"update of {ty}")
            (x, _), hs = tr.hoisted(c, env, lambda: tr.expr(c.args[0], env, ty))
            text = f"(dict_update {tr.dicts[ty]['eqb']} {pysrc.cname(name)} {x})"
        pre, post, env2 = tr.hoist_prefix(hs, env, pad)
        return pre + tr.assign(name, text, ty, env2, pad, rest, fin, ind) + post
    if isinstance(s, ast.Expr) and isinstance(s.value, ast.Call) and \
            ast.unparse(s.value.func) in spec.get("statecalls", {}):
        # a state call whose result is dropped
        _, hs = tr.hoisted(s.value, env, lambda: tr.expr0(s.value, env))
        pre, post, env2 = tr.hoist_prefix(hs, env, pad)
        return pre + tr.block(rest, env2, fin, ind) + post
    return None


def check_local(tr, name):
    """an in-place update of a list / dict held by a parameter would be visible to the caller"""
    if name in tr.pyargs:
        raise U(f"in-place update of the parameter {name}")


def assigned_hook(tr, sub, env):
    """-> (env keys this node assigns, True if the node is fully accounted for) or None"""
    if isinstance(sub, ast.Assign) and len(sub.targets) == 1 and isinstance(sub.targets[0], ast.Subscript) \
            and isinstance(sub.targets[0].value, ast.Name):
        return [sub.targets[0].value.id], True
    if isinstance(sub, ast.AnnAssign) and sub.value is None:
        return [], True
    if isinstance(sub, ast.Expr) and isinstance(sub.value, ast.Call) and isinstance(sub.value.func, ast.Attribute) \
            and isinstance(sub.value.func.value, ast.Name) and sub.value.func.attr in ("extend", "update") \
            and ast.unparse(sub.value.func) not in tr.effects:
        return [sub.value.func.value.id], False
    if isinstance(sub, ast.Call) and ast.unparse(sub.func) in tr.spec.get("statecalls", {}):
        return ["@" + v for v in tr.spec["statecalls"][ast.unparse(sub.func)]["vars"]], False
    if isinstance(sub, ast.Assign) and len(sub.targets) == 1 and isinstance(sub.targets[0], ast.Attribute) \
            and isinstance(sub.targets[0].value, ast.Name) and \
            sub.targets[0].value.id in (env or {}).get("$objloop", {}):
        return [(env or {})["$objloop"][sub.targets[0].value.id]["key"]], True
    return None


# ------------------------------------------------------------------------------------------------ match
def match_stmt(tr, s, rest, env, fin, ind):
    """match x: case C(): A  case _ if g: B  case _: D    with x a name of a sum type"""
    pad = "  " * ind
    if tr.loop_depth:
        raise U("match inside a loop")
    if not (isinstance(s.subject, ast.Name) and s.subject.id in env and env[s.subject.id] in tr.sums):
        raise U("match on something other than a name of a sum type")
    x = s.subject.id
    if x in env.get("$ctor", {}):
        raise U(f"match on {x}, whose constructor is already known")
    sd = tr.sums[env[x]]
    arms = []
    for ctor, fields in sd["ctors"]:
        env2 = dict(env)
        for f, fty in fields:
            fname = f"{x}_{f}"
            if fname in tr.all_names:
                raise U(f"the name {fname} is used by the function")
            env2 = tr.bind(env2, fname, fty)
        env2 = dict(env2)
        ct = dict(env2.get("$ctor", {}))
        ct[x] = ctor
        env2["$ctor"] = ct
        chosen = None
        for case in s.cases:
            p = case.pattern
            if isinstance(p, ast.MatchClass) and isinstance(p.cls, ast.Name) and not p.patterns and \
                    not p.kwd_attrs and not p.kwd_patterns:
                test = ast.parse(f"isinstance({x}, {p.cls.id})", mode="eval").body     # `case C():`
                c, _ = tr.expr(test, env2, "B")
            elif isinstance(p, ast.MatchAs) and p.pattern is None and p.name is None:
                c = "true"
            else:
                raise U(f"case pattern {ast.unparse(p)[:40]}")
            if c not in ("true", "false"):
                raise U(f"`case {ast.unparse(p)}` is not decided for the constructor {ctor}")
            if c == "true" and case.guard is not None:
                c, _ = tr.expr(case.guard, env2, "B")
                if c not in ("true", "false"):
                    raise U(f"the guard {ast.unparse(case.guard)[:40]} is not decided for the constructor {ctor}")
            if c == "true":
                chosen = case
                break
        body = (list(chosen.body) if chosen is not None else []) + rest
        pat = " ".join([ctor] + [f"{pysrc.cname(x)}_{f}" for f, _ in fields])
        arms.append(f"{pad}| {pat} =>\n" + tr.block(body, env2, fin, ind + 1))
    return f"{pad}match {pysrc.cname(x)} with\n" + "\n".join(arms) + f"\n{pad}end"


# ------------------------------------------------------------------------------------------------ loops
def pair_type(tr, ty):
    """item type of a list of pairs -> [type a, type b]"""
    if ty in tr.tuples and len(tr.tuples[ty]) == 2:
        return list(tr.tuples[ty])
    raise U(f"a tuple loop target over items of type {ty}")


def exits_after(stmts, pred):
    """every statement satisfying pred (at any depth of if / else) is followed at once by a `return`"""
    for j, x in enumerate(stmts):
        if pred(x):
            if not (j + 1 < len(stmts) and isinstance(stmts[j + 1], ast.Return)):
                return False
        elif isinstance(x, ast.If):
            if not exits_after(x.body, pred) or not exits_after(x.orelse, pred):
                return False
        elif any(pred(y) for y in ast.walk(x) if isinstance(y, ast.stmt) and y is not x):
            return False
    return True


def for_tuple(tr, s, rest, env, fin, ind):
    """for a, b in XS / for a, b in d.items() / for i, (a, b) in enumerate(XS), in a value-returning function
    or a procedure"""
    pad, p1, p2 = "  " * ind, "  " * (ind + 1), "  " * (ind + 2)
    if tr.kind not in ("expr", "proc") or tr.loop_depth or s.orelse:
        raise U("tuple loop target (only in a top-level loop of a value-returning function or a procedure)")
    tg, it = s.target, s.iter
    idx_name = None
    if len(tg.elts) == 2 and isinstance(tg.elts[0], ast.Name) and isinstance(tg.elts[1], ast.Tuple):
        if not (isinstance(it, ast.Call) and isinstance(it.func, ast.Name) and it.func.id == "enumerate"
                and "enumerate" not in env and len(it.args) == 1 and not it.keywords):
            raise U("tuple loop target")
        idx_name, tg, it = tg.elts[0].id, tg.elts[1], it.args[0]
    if not (len(tg.elts) == 2 and all(isinstance(t, ast.Name) for t in tg.elts)):
        raise U("tuple loop target")
    n1, n2 = tg.elts[0].id, tg.elts[1].id
    names = [n for n in (idx_name, n1, n2) if n is not None and n != "_"]
    if len(set(names)) != len(names):
        raise U("repeated name in a tuple target")
    # the stream
    iter_key = None
    if isinstance(it, ast.Call) and isinstance(it.func, ast.Attribute) and it.func.attr == "items" \
            and not it.args and not it.keywords:
        stream, dty = tr.expr0(it.func.value, env)
        if dty not in tr.dicts:
            raise U(f".items() of {dty}")
        comps = [tr.dicts[dty]["key"], tr.dicts[dty]["val"]]
    else:
        stream, sty = tr.expr0(it, env)
        if not tr.is_list(sty) or sty == "FS":
            raise U(f"loop over {sty}")
        comps = pair_type(tr, tr.item_of(sty))
        if isinstance(it, ast.Attribute) and isinstance(it.value, ast.Name) and it.value.id == "self" \
                and it.attr in tr.selfattrs and tr.selfattrs[it.attr][0] in tr.state:
            iter_key = "@" + tr.selfattrs[it.attr][0]
    # updates of the list being iterated: a store through the second target (an object of the list), or an
    # effect statement on the list — each followed at once by `return`
    objects = tr.spec.get("objects", {})

    def is_store(x):
        return isinstance(x, ast.Assign) and any(
            isinstance(t, ast.Attribute) and isinstance(t.value, ast.Name) and t.value.id in (n1, n2)
            for t in x.targets)

    def is_list_effect(x):
        ef = tr.effect_of(x) if isinstance(x, ast.Expr) else None
        return ef is not None and iter_key is not None and isinstance(ef[2], dict) and \
            (ef[0] == iter_key or iter_key[1:] in (ef[2].get("vars") or []))
    has_store = any(is_store(x) for b in s.body for x in ast.walk(b))
    if has_store:
        if iter_key is None or n2 == "_" or comps[1] not in objects:
            raise U("a store through a loop target that is not an object of a list held in a state variable")
        check_fresh(tr, it.attr)
        if any(isinstance(t, ast.Attribute) and isinstance(t.value, ast.Name) and t.value.id == n1
               for b in s.body for x in ast.walk(b) if isinstance(x, ast.Assign) for t in x.targets):
            raise U("a store through the first loop target")
    if iter_key is not None:
        for b in s.body:
            for x in ast.walk(b):
                if isinstance(x, ast.Call) and ast.unparse(x.func) in tr.spec.get("statecalls", {}) and \
                        iter_key[1:] in tr.spec["statecalls"][ast.unparse(x.func)]["vars"]:
                    raise U("a call that updates the list being iterated")
                if isinstance(x, (ast.Assign, ast.AugAssign, ast.AnnAssign)):
                    for t in (x.targets if isinstance(x, ast.Assign) else [x.target]):
                        if ast.unparse(t) == ast.unparse(it):
                            raise U("assignment to the list being iterated")
        if not exits_after(list(s.body), lambda x: is_store(x) or is_list_effect(x)):
            raise U("an update of the list being iterated that is not followed at once by `return`")
    # binder
    c1 = "_" if n1 == "_" else pysrc.cname(n1)
    c2 = "_" if n2 == "_" else pysrc.cname(n2)
    if has_store and c1 == "_":
        c1 = "w_"
    binder = f"({c1}, {c2})"
    idx_text = None
    if idx_name is not None:
        binder = f"({'_' if idx_name == '_' else pysrc.cname(idx_name)}, {binder})"
        stream = f"(py_enumerate {stream})"
        idx_text = None if idx_name == "_" else pysrc.cname(idx_name)
    elif has_store:
        if "i_" in tr.all_names or "w_" in tr.all_names:
            raise U("the names i_ / w_ are used by the function")
        binder = f"(i_, {binder})"
        stream = f"(py_enumerate {stream})"
        idx_text = "i_"
    # loop state (as in pysrc.Tr.loop)
    env_pre = dict(env)
    if has_store:
        ol = dict(env_pre.get("$objloop", {}))
        ol[n2] = dict(key=iter_key, idx=idx_text, pair=(c1, c2), ty=comps[1])
        env_pre["$objloop"] = ol
    assigned = tr.assigned(s.body, env_pre)
    state = [k for k in assigned if k in env]
    if any(n in state for n in names):
        raise U("loop target is a variable that exists before the loop")
    state_ty = {k: (tr.genparams[k[1:]] if k.startswith("@") else tr.declared.get(k, env[k])) for k in state}

    def pack(e2):
        items = [tr.coerce(pysrc.cname(v), e2[v], state_ty[v], f"(state variable {v})") for v in state]
        return "tt" if not items else (items[0] if len(items) == 1 else "(" + ", ".join(items) + ")")
    snames = [pysrc.cname(v) for v in state]
    unpack = "_" if not snames else (snames[0] if len(snames) == 1 else "'(" + ", ".join(snames) + ")")
    env_loop = dict(env)
    for v in state:
        env_loop = tr.kill(env_loop, v) if not v.startswith("@") else env_loop
        env_loop[v] = state_ty[v]
    env_loop["$y"] = False
    env_body = dict(env_loop)
    if idx_name not in (None, "_"):
        env_body = tr.bind(env_body, idx_name, "Z")
    if n1 != "_":
        env_body = tr.bind(env_body, n1, comps[0])
    if n2 != "_":
        env_body = tr.bind(env_body, n2, comps[1])
    env_body = dict(env_body)
    if has_store:
        env_body["$objloop"] = env_pre["$objloop"]

    def fin_body(e2, k, v=None):
        if k in ("end", "continue"):
            return f"(SCont {pack(e2)})"
        if k == "break":
            return f"(SBrk {pack(e2)})"
        return f"(SRet {fin(e2, k, v)})"
    tr.loop_depth += 1
    try:
        body_t = tr.block(s.body, env_body, fin_body, ind + 2)
    finally:
        tr.loop_depth -= 1
    post_t = tr.block(rest, env_loop, fin, ind + 2)
    head = f"(fun {unpack} '{binder} =>"
    return (f"{pad}iter_for\n{p1}{head}\n{body_t})\n{p1}(fun {unpack} =>\n{post_t})\n"
            f"{p1}{pack(env)} {stream}")


def obj_store(tr, s, rest, env, fin, ind):
    """v.attr = e   for a loop target v that is an object of the list (a state variable) being iterated"""
    pad = "  " * ind
    tg = s.targets[0]
    v = tg.value.id
    info = env["$objloop"][v]
    setters = tr.spec["objects"][info["ty"]]
    if tg.attr not in setters:
        raise U(f"store of .{tg.attr} on an object of type {info['ty']}")
    setter, aty = setters[tg.attr]
    if not (rest and isinstance(rest[0], ast.Return)):
        raise U("a store through a loop target must be followed at once by `return`")
    (val, _), hs = tr.hoisted(s.value, env, lambda: tr.expr(s.value, env, aty))
    if hs:
        raise U("a call that updates state in the right-hand side of a store through a loop target")
    key = info["key"]
    lst = pysrc.cname(key)
    c1, c2 = info["pair"]
    text = (f"{pad}let {c2} := ({setter} {c2} {val}) in\n"
            f"{pad}let {lst} := (py_set_index {lst} {info['idx']} ({c1}, {c2})) in\n")
    env2 = tr.kill_path(env, f"{v}.{tg.attr}")
    env2 = dict(env2)
    env2[key] = tr.genparams[key[1:]]
    return text + tr.block(rest, env2, fin, ind)


def check_fresh(tr, attr):
    """spec["fresh_objects"][attr] = (function, constructor): the objects in the list self.<attr> are pairwise
    distinct and private — the class stores into the list only by
        self.<attr>.append((.., NAME))     in that function, NAME bound once there, by NAME = constructor(..),
                                           and mentioned nowhere else,
    creates it empty in __init__, and otherwise only reads it or calls .pop on it."""
    fo = tr.spec.get("fresh_objects", {})
    cd = tr.classdef
    if attr not in fo or cd is None:
        raise U(f"self.{attr}: objects updated in place need spec fresh_objects")
    func, ctor = fo[attr]

    def is_attr(n):
        return isinstance(n, ast.Attribute) and n.attr == attr and isinstance(n.value, ast.Name) and n.value.id == "self"
    appends = 0
    for fdef in [n for n in cd.body if isinstance(n, ast.FunctionDef)]:
        for sub in ast.walk(fdef):
            if isinstance(sub, (ast.Assign, ast.AnnAssign, ast.AugAssign)):
                tgs = sub.targets if isinstance(sub, ast.Assign) else [sub.target]
                for tg in tgs:
                    for x in ast.walk(tg):
                        if is_attr(x):
                            ok = fdef.name == "__init__" and tg is x and isinstance(sub, (ast.Assign, ast.AnnAssign)) \
                                and isinstance(sub.value, ast.List) and not sub.value.elts
                            if not ok:
                                raise U(f"self.{attr} is stored into in {fdef.name}")
            if isinstance(sub, (ast.Delete, ast.Return)) and any(is_attr(x) for x in ast.walk(sub)):
                raise U(f"self.{attr} is deleted from / returned in {fdef.name}")
            if isinstance(sub, ast.Call) and isinstance(sub.func, ast.Attribute) and is_attr(sub.func.value):
                m = sub.func.attr
                if m == "pop":
                    continue
                if m != "append" or fdef.name != func or len(sub.args) != 1 or sub.keywords or \
                        not (isinstance(sub.args[0], ast.Tuple) and len(sub.args[0].elts) == 2
                             and isinstance(sub.args[0].elts[1], ast.Name)):
                    raise U(f"self.{attr}.{m}(..) in {fdef.name}")
                name = sub.args[0].elts[1].id
                uses = [x for x in ast.walk(fdef) if isinstance(x, ast.Name) and x.id == name]
                binds = [x for x in ast.walk(fdef) if isinstance(x, ast.Assign) and len(x.targets) == 1
                         and isinstance(x.targets[0], ast.Name) and x.targets[0].id == name]
                if len(uses) != 2 or len(binds) != 1 or not (
                        isinstance(binds[0].value, ast.Call) and isinstance(binds[0].value.func, ast.Name)
                        and binds[0].value.func.id == ctor):
                    raise U(f"the object appended to self.{attr} is not a fresh {ctor}(..) used nowhere else")
                appends += 1
            if isinstance(sub, ast.Call) and any(is_attr(a) for a in list(sub.args) + [k.value for k in sub.keywords]) \
                    and not (isinstance(sub.func, ast.Name) and sub.func.id == "enumerate"):
                raise U(f"self.{attr} is passed to {ast.unparse(sub.func)[:30]} in {fdef.name}")
    if appends != 1:
        raise U(f"self.{attr}: expected exactly one append")
