"""Tie C, third extension: calgebra/metrics.py.  SPECS_MET is appended to srcspecs.SPECS, HEADER_MET to the
header of coq/Gen/Source.v.  Equivalence proofs: coq/Proofs/GenEq_met.v; model additions: coq/Model/MetricsSrc.v;
combinators: coq/Model/LoopMet.v.

TRUSTED readings (what the equivalence theorems of Proofs/GenEq_met.v take for granted about Python):

 R1  Timelines are values of an abstract type TL.  `tl[a:b]` (ints a, b) is the parameter tl_slice tl a b,
     `flatten(tl)` the parameter tl_flatten tl, `make_timeline(*xs)` the parameter tl_make xs (the stream xs
     consumed in order).  The theorems instantiate them with the expression model: tslice, flatten_, Stored.
     The callbacks `agg` / `combiner` are pure functions (Coq functions).
 R2  Aware datetimes in the query zone are values of an abstract type DT with the operations p_* as
     parameters (as for _period_windows_with_dt, GenEq10.v); every `ZoneInfo(tz)` reached from one public call
     denotes the same zone, because `tz` is only ever passed on unchanged (CHECKED: an argument declared "=tz"
     must be the parameter tz itself, never assigned); the zone is part of the p_* parameters, tz is dropped.
     `datetime.combine(d, datetime.min.time(), tzinfo=zone)` for the date d = (y, m, d) is p_ymd y m d, i.e.
     datetime(y, m, d, tzinfo=zone).  `dt.isocalendar()[1]` is the parameter p_isoweek dt.
 R3  A start / end bound is a value of the sum type MetricsSrc.mbound:  MBInt z = an int (bool included:
     isinstance(True, int));  MBDate y m d = a datetime.date that is not a datetime;  MBAware t = an aware
     datetime with int(bound.timestamp()) = t;  MBNaive = a datetime whose tzinfo is None;  MBOther = any
     other object.  datetime is a subclass of date.  The isinstance / tzinfo / timestamp tests of
     _coerce_bound are read per constructor (table MBOUND_SUM).
 R4  `period` / `group_by` strings are the constructors of Metrics.period / Metrics.groupby (one per literal
     of the Literal types Period / GroupBy, pinned by file_has); `group_by: GroupBy | None` is an option.
     `match x: case "lit": ..` is `if x == "lit": .. elif ..` (no guards, no captures; `case _` = else).
     The table _VALID_GROUP_BY is pinned to its exact source text (file_has); under that text
     `p not in _VALID_GROUP_BY`, `_VALID_GROUP_BY[p]` (only evaluated for a message; undefined — KeyError —
     for a period that is not a key: translation fails if that is reached) and `g not in _VALID_GROUP_BY[p]`
     are read per constructor of p (table PSUMV).
 R5  sum(xs) over ints is 0 + x1 + x2 + .. (fold_left Z.add xs 0).  int / int (a float) is read as the EXACT
     ratio (numerator, denominator) and the float 0.0 as (0, 1): float rounding is not modelled.  That every
     denominator built is positive (no ZeroDivisionError) is PROVED of the generated text, not assumed
     (g_cov_agg_den_pos, g_cov_combine_den_pos).
 R6  collections.defaultdict(list): a dictionary in insertion order (Model/Loop.v); d[k].append(v) inserts a
     missing key at the end with [v] and appends v in place for a present key (pym_dd_append);
     d.items() are the pairs in insertion order.  sorted((k, f k v) for k, v in d.items()) with int keys is
     the list in ascending key order (pym_sort_fst): keys of a dictionary are pairwise different, so Python
     never compares the second components (CHECKED syntactically: first component = the key variable).
 R7  A local closure (`def _agg(..)` inside a public function) is translated as a function of its own
     parameters (CHECKED: it reads no local of the enclosing function, has no defaults / nonlocal) and passed
     as a value; module-level functions and the builtin `sum` passed as arguments are the generated
     definitions / fold_left Z.add (CHECKED: the name is not rebound in the function).
     A list `list[tuple[date | datetime, int, int]]` is a list over a label type LBL into which a DT is
     injected by p_dt_label (a datetime IS a date) and `dt.date()` by p_date; `isinstance(dt, datetime)` is
     True for a value of type DT (the labels _period_windows_with_dt builds are datetimes).  A union result
     type `list[tuple[date, V]] | list[tuple[int, V]]` is read as a sum (inl: per period, inr: per group).
 R8  The spec lists the Python parameters in the order of the `def` (CHECKED: check_arg_order); default
     values of parameters are not modelled (the generated definition takes every argument explicitly).
"""
import ast

MET = "calgebra/metrics.py"

HEADER_MET = "From CG Require Import Model.LoopMet Model.MetricsSrc.\n\n"

IMPORTS = ["from collections import defaultdict",
           "from datetime import date, datetime, timedelta",
           "from zoneinfo import ZoneInfo",
           "from .core import Timeline, flatten",
           "from .mutable.memory import timeline as make_timeline"]
LITERALS = ["Period = Literal['hour', 'day', 'week', 'month', 'year', 'full']",
            "GroupBy = Literal['hour_of_day', 'day_of_week', 'day_of_month', 'week_of_year', 'month_of_year']"]

# ---- the abstract datetime operations (same names and order as g_period_windows_dt)
PW = [("p_fromtimestamp", "Z -> DT"), ("p_ymd", "Z -> Z -> Z -> DT"), ("p_ymdh", "Z -> Z -> Z -> Z -> DT"),
      ("p_hours", "Z -> TD"), ("p_days", "Z -> TD"), ("p_weeks", "Z -> TD"),
      ("p_add", "DT -> TD -> DT"), ("p_sub", "DT -> TD -> DT"), ("p_lt", "DT -> DT -> bool"),
      ("p_timestamp", "DT -> Z"), ("p_weekday", "DT -> Z"),
      ("p_year", "DT -> Z"), ("p_month", "DT -> Z"), ("p_day", "DT -> Z"), ("p_hour", "DT -> Z")]
PWN = [n for n, _ in PW]
# what _extract_group_key reads of a datetime
GK = [("k_hour", "DT -> Z"), ("k_weekday", "DT -> Z"), ("k_day", "DT -> Z"), ("k_isoweek", "DT -> Z"),
      ("k_month", "DT -> Z")]
GKN = [n for n, _ in GK]
LB = [("p_date", "DT -> LBL"), ("p_dt_label", "DT -> LBL")]
LBN = [n for n, _ in LB]
TLP = [("tl_slice", "TL -> Z -> Z -> list ivl"), ("tl_make", "list ivl -> TL")]
TLN = [n for n, _ in TLP]
FLAT = ("tl_flatten", "TL -> TL")

# ---- sum types
_PL = ["hour", "day", "week", "month", "year", "full"]
_PC = ["Metrics.PHour", "Metrics.PDay", "Metrics.PWeek", "Metrics.PMonth", "Metrics.PYear", "Metrics.PFull"]
_GL = ["hour_of_day", "day_of_week", "day_of_month", "week_of_year", "month_of_year"]
_GC = ["Metrics.GHourOfDay", "Metrics.GDayOfWeek", "Metrics.GDayOfMonth", "Metrics.GWeekOfYear", "Metrics.GMonthOfYear"]

PERIOD_SUM = {"PERIOD": dict(
    coq="Metrics.period", ctors=[(c, []) for c in _PC],
    exprs={c: {"{x} == '%s'" % lit: (("true" if lit == l else "false"), "B") for lit in _PL} for c, l in zip(_PC, _PL)})}
GB_SUM = {"GBSUM": dict(
    coq="Metrics.groupby", ctors=[(c, []) for c in _GC],
    exprs={c: {"{x} == '%s'" % lit: (("true" if lit == l else "false"), "B") for lit in _GL} for c, l in zip(_GC, _GL)})}

# the table _VALID_GROUP_BY, pinned to its source text
_VGB_SRC = '''_VALID_GROUP_BY: dict[str, set[str]] = {
    "hour": {"hour_of_day"},
    "day": {"day_of_week", "day_of_month"},
    "week": {"week_of_year"},
    "month": {"month_of_year"},
}'''
_VGB_NODE = ast.parse(_VGB_SRC).body[0]
VGB_LINE = ast.unparse(_VGB_NODE)
VGB = ast.literal_eval(_VGB_NODE.value)


def _not_in_row(lit):
    arms = " | ".join(f"{c} => false" for c, g in zip(_GC, _GL) if g in VGB[lit])
    return f"(match group_by with {arms} | _ => true end)", "B"


PSUMV = {"PSUMV": dict(
    coq="Metrics.period", ctors=[(c, []) for c in _PC],
    exprs={c: {"{x} not in _VALID_GROUP_BY": (("false" if l in VGB else "true"), "B"),
               "_VALID_GROUP_BY[{x}]": (("tt", "U") if l in VGB else None),
               "group_by not in _VALID_GROUP_BY[{x}]": (_not_in_row(l) if l in VGB else None)}
           for c, l in zip(_PC, _PL)})}

_MB = {"isinstance({x}, int)": ("false", "B"), "isinstance({x}, date)": ("false", "B"),
       "isinstance({x}, datetime)": ("false", "B"), "{x}.tzinfo is None": None, "int({x}.timestamp())": None,
       "{x}": None, "datetime.combine({x}, datetime.min.time(), tzinfo=zone)": None}
MBOUND_SUM = {"MBOUND": dict(
    coq="MetricsSrc.mbound",
    ctors=[("MetricsSrc.MBInt", [("z", "Z")]), ("MetricsSrc.MBDate", [("y", "Z"), ("m", "Z"), ("d", "Z")]),
           ("MetricsSrc.MBAware", [("t", "Z")]), ("MetricsSrc.MBNaive", []), ("MetricsSrc.MBOther", [])],
    exprs={"MetricsSrc.MBInt": dict(_MB, **{"isinstance({x}, int)": ("true", "B"), "{x}": ("{z}", "Z")}),
           "MetricsSrc.MBDate": dict(_MB, **{"isinstance({x}, date)": ("true", "B"),
                                             "datetime.combine({x}, datetime.min.time(), tzinfo=zone)":
                                                 ("(p_ymd {y} {m} {d})", "DT")}),
           "MetricsSrc.MBAware": dict(_MB, **{"isinstance({x}, date)": ("true", "B"),
                                              "isinstance({x}, datetime)": ("true", "B"),
                                              "{x}.tzinfo is None": ("false", "B"),
                                              "int({x}.timestamp())": ("{t}", "Z")}),
           "MetricsSrc.MBNaive": dict(_MB, **{"isinstance({x}, date)": ("true", "B"),
                                              "isinstance({x}, datetime)": ("true", "B"),
                                              "{x}.tzinfo is None": ("true", "B")}),
           "MetricsSrc.MBOther": dict(_MB)})}

T_TL = {"TL": "TL"}
T_DT = {"DT": "DT", "TD": "TD"}
T_OPQ = {"MB": "MetricsSrc.mbound", "PER": "Metrics.period", "GB": "Metrics.groupby"}
SLICES = {"TL": ("tl_slice", "LIST")}

C_COERCE = {"_coerce_bound": dict(coq="g_met_coerce_bound", pre=["p_ymd", "p_timestamp"], args=["MB", "=tz"],
                                  ret="Z", res=True)}
C_MAKE = {"make_timeline": dict(coq="tl_make", star="LIST", ret="TL")}
C_TOTAL = {"_total_duration": ("g_total_duration tl_flatten tl_slice", ["TL", "Z", "Z"], "Z")}
SUM_FN = "(fun l_ => fold_left Z.add l_ 0)"


def _closure(name, outer, inner, params, ret, **kw):
    return dict(name=name, file=MET, func=outer, nested=inner, kind="expr", ret=ret, tyvars=["TL"],
                types=dict(T_TL, **kw.pop("types", {})), params=params, check_arg_order=True, file_has=IMPORTS, **kw)


_AGG_ARGS = [("tl", "TL"), ("win_start", "Z"), ("win_end", "Z")]


def _pub(name, func, ret, types, tuples, calls, **kw):
    """a public wrapper: (timeline, start, end, period, tz[, group_by])"""
    grouped = kw.pop("grouped", True)
    extra = kw.pop("extra_params", [])
    params = extra + TLP + PW + (GK if grouped else []) + LB + \
        [("timeline", "TL"), ("start", "MB"), ("end", "MB"), ("period", "PER")] + \
        ([("group_by", "O:GB")] if grouped else [])
    calls = dict(calls)
    calls["_windowed_agg"] = dict(coq="g_windowed_agg", pre=TLN + PWN + LBN,
                                  args=["TL", "MB", "MB", "=tz", "PER", "FUN"], ret="L:ROW", res=True, fuel=True)
    if grouped:
        calls["_validate_period_group_by"] = dict(coq="g_validate_period_group_by", args=["PER", "O:GB"], ret="U",
                                                  res=True)
        calls["_grouped_agg"] = dict(coq="g_grouped_agg", pre=TLN + PWN + GKN,
                                     args=["TL", "MB", "MB", "=tz", "PER", "GB"],
                                     kw=[("agg", "FUN"), ("combiner", "FUN")], ret="L:GROW", res=True, fuel=True)
    return dict(name=name, file=MET, func=func, kind="expr", res=True, ret=ret,
                tyvars=["TL", "DT", "TD", "LBL"], types=dict(T_TL, **T_DT, **T_OPQ, LBL="LBL", **types),
                tuples=tuples, params=params, calls=calls, check_arg_order=True, dropped_args=["tz"],
                match_options=True, file_has=IMPORTS + LITERALS,
                coercions=({("L:ROW", "MOUT"): "inl", ("L:GROW", "MOUT"): "inr"} if grouped else {}), **kw)


SPECS_MET = [
    # ---- the per-window aggregations
    dict(name="g_total_duration", file=MET, func="_total_duration", kind="expr", ret="Z", tyvars=["TL"], types=T_TL,
         params=[FLAT, TLP[0], ("tl", "TL"), ("win_start", "Z"), ("win_end", "Z")],
         calls={"flatten": ("tl_flatten", ["TL"], "TL")}, slices=SLICES, check_arg_order=True, file_has=IMPORTS),
    dict(name="g_extremum_duration", file=MET, func="_extremum_duration", kind="expr", ret="OIVL", tyvars=["TL"],
         types=T_TL, params=[TLP[0], ("tl", "TL"), ("win_start", "Z"), ("win_end", "Z"), ("find_max", "B")],
         slices=SLICES, check_arg_order=True, file_has=IMPORTS),
    _closure("g_max_agg", "max_duration", "_agg", [TLP[0]] + _AGG_ARGS, "OIVL",
             calls={"_extremum_duration": dict(coq="g_extremum_duration tl_slice", args=["TL", "Z", "Z"],
                                               kw=[("find_max", "B")], ret="OIVL")}),
    _closure("g_min_agg", "min_duration", "_agg", [TLP[0]] + _AGG_ARGS, "OIVL",
             calls={"_extremum_duration": dict(coq="g_extremum_duration tl_slice", args=["TL", "Z", "Z"],
                                               kw=[("find_max", "B")], ret="OIVL")}),
    _closure("g_count_agg", "count_intervals", "_agg", [TLP[0]] + _AGG_ARGS, "Z", slices=SLICES),
    _closure("g_cov_agg_tuple", "coverage_ratio", "_agg_tuple", [FLAT, TLP[0]] + _AGG_ARGS, "ZZ",
             types={"ZZ": "(Z * Z)"}, tuples={"ZZ": ["Z", "Z"]}, calls=C_TOTAL),
    dict(name="g_cov_combine_ratios", file=MET, func="coverage_ratio", nested="_combine_ratios", kind="expr",
         ret="RAT", types={"RAT": "(Z * Z)", "ZZ": "(Z * Z)"}, tuples={"ZZ": ["Z", "Z"]}, ratio_type="RAT",
         params=[("tuples", "L:ZZ")], check_arg_order=True),
    _closure("g_cov_agg", "coverage_ratio", "_agg", [FLAT, TLP[0]] + _AGG_ARGS, "RAT", types={"RAT": "(Z * Z)"},
             ratio_type="RAT", calls=C_TOTAL),
    # ---- keys, validation, bounds
    dict(name="g_extract_group_key", file=MET, func="_extract_group_key", kind="expr", res=True, ret="Z",
         tyvars=["DT"], types={"DT": "DT"}, sums=GB_SUM, params=GK + [("dt", "DT"), ("group_by", "GBSUM")],
         attrs={("DT", "hour"): ("k_hour", "Z"), ("DT", "day"): ("k_day", "Z"), ("DT", "month"): ("k_month", "Z")},
         methods={("DT", "weekday"): dict(coq="k_weekday", args=[], ret="Z")},
         text_exprs={"dt.isocalendar()[1]": ("(k_isoweek dt)", "Z")},
         check_arg_order=True, file_has=IMPORTS + LITERALS),
    dict(name="g_validate_period_group_by", file=MET, func="_validate_period_group_by", kind="expr", res=True,
         ret="U", unit_fn=True, match_options=True, types={"GB": "Metrics.groupby", "U": "unit"}, sums=PSUMV,
         params=[("period", "PSUMV"), ("group_by", "O:GB")], check_arg_order=True,
         file_has=LITERALS + [VGB_LINE]),
    dict(name="g_met_coerce_bound", file=MET, func="_coerce_bound", kind="expr", res=True, ret="Z", tyvars=["DT"],
         types={"DT": "DT", "U": "unit"}, sums=MBOUND_SUM,
         params=[("p_ymd", "Z -> Z -> Z -> DT"), ("p_timestamp", "DT -> Z"), ("bound", "MBOUND")],
         text_exprs={"ZoneInfo(tz)": ("tt", "U")},
         methods={("DT", "timestamp"): dict(coq="p_timestamp", args=[], ret="Z")},
         check_arg_order=True, dropped_args=["tz"], file_has=IMPORTS),
    # ---- windows with date labels
    dict(name="g_period_windows", file=MET, func="_period_windows", kind="expr", res=True, ret="L:LWIN",
         tyvars=["DT", "TD", "LBL"], types=dict(T_DT, LBL="LBL", WIN="(DT * Z * Z)", LWIN="(LBL * Z * Z)"),
         tuples={"WIN": ["DT", "Z", "Z"], "LWIN": ["LBL", "Z", "Z"]}, sums=PERIOD_SUM,
         params=PW + LB + [("start_ts", "Z"), ("end_ts", "Z"), ("period", "PERIOD")],
         calls={"_period_windows_with_dt": dict(coq="g_period_windows_dt", pre=PWN, args=["Z", "Z", "PERIOD", "=tz"],
                                                ret="L:WIN", res=True, fuel=True)},
         methods={("DT", "date"): dict(coq="p_date", args=[], ret="LBL")},
         isinstance={("DT", "datetime"): "true"}, coercions={("DT", "LBL"): "p_dt_label"},
         check_arg_order=True, dropped_args=["tz"], file_has=IMPORTS + LITERALS),
    # ---- the two drivers
    dict(name="g_windowed_agg", file=MET, func="_windowed_agg", kind="expr", res=True, ret="L:ROW",
         tyvars=["TL", "DT", "TD", "LBL", "AV"],
         types=dict(T_TL, **T_DT, **T_OPQ, LBL="LBL", AV="AV", LWIN="(LBL * Z * Z)", ROW="(LBL * AV)"),
         tuples={"LWIN": ["LBL", "Z", "Z"], "ROW": ["LBL", "AV"]},
         params=TLP + PW + LB + [("tl", "TL"), ("start", "MB"), ("end", "MB"), ("period", "PER"),
                                 ("agg", "TL -> Z -> Z -> AV")],
         slices=SLICES,
         calls=dict(C_COERCE, **C_MAKE, **{
             "_period_windows": dict(coq="g_period_windows", pre=PWN + LBN, args=["Z", "Z", "PER", "=tz"],
                                     ret="L:LWIN", res=True, fuel=True),
             "agg": ("agg", ["TL", "Z", "Z"], "AV")}),
         check_arg_order=True, dropped_args=["tz"], file_has=IMPORTS + LITERALS),
    dict(name="g_grouped_agg", file=MET, func="_grouped_agg", kind="expr", res=True, ret="L:GROW",
         tyvars=["TL", "DT", "TD", "AV", "CV"],
         types=dict(T_TL, **T_DT, **T_OPQ, AV="AV", CV="CV", WIN="(DT * Z * Z)", GROW="(Z * CV)"),
         tuples={"WIN": ["DT", "Z", "Z"], "GROW": ["Z", "CV"]},
         dicts={"DDV": dict(key="Z", val="L:AV", eqb="Z.eqb", defaultdict=True)},
         annotations={"dict[int, list[Any]]": "DDV"}, for_r=True, sorted_items=True,
         params=TLP + PW + GK + [("tl", "TL"), ("start", "MB"), ("end", "MB"), ("period", "PER"), ("group_by", "GB"),
                                 ("agg", "TL -> Z -> Z -> AV"), ("combiner", "list AV -> CV")],
         slices=SLICES,
         calls=dict(C_COERCE, **C_MAKE, **{
             "_period_windows_with_dt": dict(coq="g_period_windows_dt", pre=PWN, args=["Z", "Z", "PER", "=tz"],
                                             ret="L:WIN", res=True, fuel=True),
             "_extract_group_key": dict(coq="g_extract_group_key", pre=GKN, args=["DT", "GB"], ret="Z", res=True),
             "agg": ("agg", ["TL", "Z", "Z"], "AV"),
             "combiner": ("combiner", ["L:AV"], "CV")}),
         check_arg_order=True, dropped_args=["tz"], file_has=IMPORTS + LITERALS),
    # ---- the public functions: which helper runs with which arguments
    _pub("g_pub_total_duration", "total_duration", "MOUT",
         types={"MOUT": "(list (LBL * Z) + list (Z * Z))", "ROW": "(LBL * Z)", "GROW": "(Z * Z)"},
         tuples={"ROW": ["LBL", "Z"], "GROW": ["Z", "Z"]}, calls={}, extra_params=[FLAT],
         funargs={"_total_duration": "(g_total_duration tl_flatten tl_slice)", "sum": SUM_FN}),
    _pub("g_pub_max_duration", "max_duration", "L:ROW", grouped=False,
         types={"ROW": "(LBL * option ivl)"}, tuples={"ROW": ["LBL", "OIVL"]}, calls={},
         closure_defs={"_agg": "(g_max_agg tl_slice)"}),
    _pub("g_pub_min_duration", "min_duration", "L:ROW", grouped=False,
         types={"ROW": "(LBL * option ivl)"}, tuples={"ROW": ["LBL", "OIVL"]}, calls={},
         closure_defs={"_agg": "(g_min_agg tl_slice)"}),
    _pub("g_pub_count_intervals", "count_intervals", "MOUT",
         types={"MOUT": "(list (LBL * Z) + list (Z * Z))", "ROW": "(LBL * Z)", "GROW": "(Z * Z)"},
         tuples={"ROW": ["LBL", "Z"], "GROW": ["Z", "Z"]}, calls={},
         closure_defs={"_agg": "(g_count_agg tl_slice)"}, funargs={"sum": SUM_FN}),
    _pub("g_pub_coverage_ratio", "coverage_ratio", "MOUT",
         types={"MOUT": "(list (LBL * (Z * Z)) + list (Z * (Z * Z)))", "RAT": "(Z * Z)", "ROW": "(LBL * (Z * Z))",
                "GROW": "(Z * (Z * Z))"},
         tuples={"ROW": ["LBL", "RAT"], "GROW": ["Z", "RAT"]}, calls={}, extra_params=[FLAT],
         closure_defs={"_agg_tuple": "(g_cov_agg_tuple tl_flatten tl_slice)",
                       "_combine_ratios": "g_cov_combine_ratios",
                       "_agg": "(g_cov_agg tl_flatten tl_slice)"}),
]
