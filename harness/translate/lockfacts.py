"""Tie B for C11: extract the structural lock facts of CachedTimeline from the SOURCE of
calgebra/cache.py (ast) and emit coq/Gen/LockFacts.v.  Fail-closed: any construct the extractor
does not understand raises, which breaks the proof obligation.

Facts per method: accesses to shared fields outside / inside `with self._lock`, calls to other
methods of the class outside / inside, yields inside, number of lock blocks.  Shared fields are
all attributes assigned in __init__ except the immutable configuration."""
from __future__ import annotations

import ast
from pathlib import Path

CONFIG_ATTRS = {"source", "ttl", "_key_fields", "_lock"}       # set once in __init__, never mutated
LOCK = "_lock"


class Unsupported(Exception):
    pass


def _is_self_attr(node, name=None):
    return (isinstance(node, ast.Attribute) and isinstance(node.value, ast.Name) and node.value.id == "self"
            and (name is None or node.attr == name))


def extract(cache_py: Path):
    tree = ast.parse(cache_py.read_text())
    cls = next((n for n in tree.body if isinstance(n, ast.ClassDef) and n.name == "CachedTimeline"), None)
    if cls is None:
        raise Unsupported("class CachedTimeline not found")
    methods = [n for n in cls.body if isinstance(n, (ast.FunctionDef, ast.AsyncFunctionDef))]
    if any(isinstance(n, ast.AsyncFunctionDef) for n in methods):
        raise Unsupported("async method")
    names = {m.name for m in methods}
    init = next((m for m in methods if m.name == "__init__"), None)
    if init is None:
        raise Unsupported("no __init__")
    # attributes assigned in __init__
    init_attrs = set()
    for n in ast.walk(init):
        targets = []
        if isinstance(n, ast.Assign):
            targets = n.targets
        elif isinstance(n, (ast.AnnAssign, ast.AugAssign)):
            targets = [n.target]
        for t in targets:
            if _is_self_attr(t):
                init_attrs.add(t.attr)
    shared = init_attrs - CONFIG_ATTRS
    # config attributes must not be written outside __init__
    lock_assign = 0
    lock_in_init = False
    other_lock_uses = 0
    for m in methods:
        for n in ast.walk(m):
            targets = []
            if isinstance(n, ast.Assign):
                targets = n.targets
            elif isinstance(n, (ast.AnnAssign, ast.AugAssign)):
                targets = [n.target]
            for t in targets:
                if _is_self_attr(t, LOCK):
                    lock_assign += 1
                    v = getattr(n, "value", None)
                    if (m.name == "__init__" and isinstance(v, ast.Call) and isinstance(v.func, ast.Attribute)
                            and v.func.attr == "Lock"):
                        lock_in_init = True
                elif _is_self_attr(t) and t.attr in CONFIG_ATTRS and m.name != "__init__":
                    raise Unsupported(f"configuration attribute {t.attr} written in {m.name}")
                elif _is_self_attr(t) and t.attr not in init_attrs:
                    raise Unsupported(f"attribute {t.attr} created outside __init__ in {m.name}")

    generators = {m.name for m in methods
                  if any(isinstance(n, (ast.Yield, ast.YieldFrom)) for n in ast.walk(m))}
    lazy_in_lock = 0
    facts = []
    for m in methods:
        if m.name == "__init__":
            continue          # construction happens before the object is shared
        is_prop = any(isinstance(d, ast.Name) and d.id == "property" for d in m.decorator_list)
        entry = (not m.name.startswith("_")) or is_prop
        st = dict(acc_out=0, acc_in=0, calls_out=[], calls_in=[], yields_in=0, acquires=0)

        def visit(node, inside, parent=None):
            nonlocal other_lock_uses, lazy_in_lock
            if isinstance(node, (ast.FunctionDef, ast.Lambda, ast.AsyncFunctionDef)) and node is not m:
                # nested function bodies run whenever they are called: treat their accesses as outside
                for ch in ast.iter_child_nodes(node):
                    visit(ch, False, node)
                return
            if isinstance(node, ast.With):
                lock_items = [it for it in node.items if _is_self_attr(it.context_expr, LOCK)]
                if lock_items:
                    if len(node.items) != 1 or inside:
                        raise Unsupported(f"unusual lock block in {m.name}")
                    st["acquires"] += 1
                    for ch in node.body:
                        visit(ch, True, node)
                    return
            if _is_self_attr(node, LOCK):
                other_lock_uses += 1          # any use of the lock other than `with self._lock:`
            if _is_self_attr(node) and node.attr in shared:
                st["acc_in" if inside else "acc_out"] += 1
            if isinstance(node, ast.Call) and _is_self_attr(node.func) and node.func.attr in names:
                st["calls_in" if inside else "calls_out"].append(node.func.attr)
                if inside and node.func.attr in generators:
                    # a generator method runs when it is iterated: it must be materialised on the spot
                    ok = (isinstance(parent, ast.Call) and isinstance(parent.func, ast.Name)
                          and parent.func.id in ("list", "tuple", "sorted", "set") and parent.args == [node])
                    if not ok:
                        lazy_in_lock += 1
            if isinstance(node, (ast.Yield, ast.YieldFrom)) and inside:
                st["yields_in"] += 1
            if isinstance(node, (ast.Global, ast.Nonlocal)):
                raise Unsupported(f"global/nonlocal in {m.name}")
            for ch in ast.iter_child_nodes(node):
                visit(ch, inside, node)

        for stmt in m.body:
            visit(stmt, False, m)
        facts.append(dict(name=m.name, entry=entry, **st))
    return dict(lock_assignments=lock_assign, lock_in_init=lock_in_init,
                other_lock_uses=other_lock_uses + lazy_in_lock,
                shared=sorted(shared), methods=facts)


def to_coq(f):
    def b(x):
        return "true" if x else "false"

    def sl(l):
        return "[" + "; ".join(f'"{x}"' for x in l) + "]"
    rows = []
    for m in f["methods"]:
        rows.append(f'    mkMF "{m["name"]}" {b(m["entry"])} {m["acc_out"]} {m["acc_in"]} {sl(m["calls_out"])} '
                    f'{sl(m["calls_in"])} {m["yields_in"]} {m["acquires"]}')
    return ("(* GENERATED on every run by harness/translate/lockfacts.py from calgebra/cache.py — do not edit.\n"
            f"   shared fields: {', '.join(f['shared'])} *)\n"
            "From CG Require Import Spec.LockDiscipline.\n\n"
            "Definition facts : cfacts :=\n"
            f"  mkCF {f['lock_assignments']} {b(f['lock_in_init'])} {f['other_lock_uses']} [\n"
            + ";\n".join(rows) + "\n  ].\n")


def regenerate(repo: Path, coq_dir: Path):
    """Rewrite Gen/LockFacts.v if its content changed.  Returns (facts or None, error or None)."""
    out = coq_dir / "Gen" / "LockFacts.v"
    try:
        f = extract(repo / "calgebra" / "cache.py")
        text = to_coq(f)
        err = None
    except (Unsupported, SyntaxError, OSError) as ex:
        f = None
        err = f"{type(ex).__name__}: {ex}"
        text = ("(* GENERATED: the extractor could not process calgebra/cache.py: " + err.replace("*)", "* )") + " *)\n"
                "From CG Require Import Spec.LockDiscipline.\n"
                "Definition facts : cfacts := mkCF 0 false 1 [].\n")
    if not out.exists() or out.read_text() != text:
        out.write_text(text)
    return f, err
