"""Tie C, third extension (tag gcsa): the functions of calgebra/gcsa.py that are translated, with the typing
information Python does not state.  The translator extension they need is pysrc_gcsa.py (imported here: it
installs itself on pysrc.Tr and is active only for specs with gx=True).

Every generated definition is PARAMETRIC in the datetime / zoneinfo / gcsa objects it touches: they are
abstract types (tyvars) and the library operations on them are function parameters.  Proofs/GenEq_gcsa*.v
instantiate them with the zone model (Model/Zone.v) and the simulated backend's data (Model/Gcsa.v) and prove
the instance equal to the hand-written model function; the instantiation is visible in each theorem statement.

TRUSTED readings (what the equivalence theorems take for granted about Python and the libraries):
  R1  `datetime.fromtimestamp(t, tz=z)`, `x.time()`, `time.min`, `timedelta(seconds= / days= / hours=)`,
      `td.days`, `td - td`, `td > td`, `x != y` on times: total, side-effect-free operations; each is a
      parameter.  The instantiation used by the theorems: a datetime is (wall-clock seconds, fold) in the
      zone model, x.time() is its second of day, time.min is 0, a timedelta is a number of seconds,
      timedelta(seconds=s).days = floor(s / 86400)  (timedelta normalises to 0 <= seconds < 86400).
  R2  `timezone.utc` is a fixed zone object (parameter tz_utc; instantiated with the zone model's UTC).
  R3  An Optional[T] of a declared abstract type is Coq's option; `x is None`, `x is not None` are the
      constructor tests.
  R4  (_fetch_reverse) `self._fetch_forward(a, b)` is a PURE function of its two bounds returning the list of
      what the generator yields (parameter fetch_forward); `ev.start` of a fetched Event is an int
      (parameter ev_start : it is built by `start=_to_timestamp(..)`).  A generator = the list of its yields;
      `yield from reversed(l)` appends rev l.  The `while` is fuelled (RFuel when the fuel runs out).
  R5  (_format_exdate) `dt.strftime(_EXDATE_FORMAT)` is a parameter; the module must say
      `_EXDATE_FORMAT = '%Y%m%dT%H%M%SZ'` and `_timestamp_to_datetime` is translated too (g_gcsa_ts_to_dt:
      `datetime.fromtimestamp(ts, tz=timezone.utc)`).  Instantiation: the UTC civil fields of the instant
      (Model/Gcsa.v format_exdate).
  R6  (_add_exdate_to_rrule) strings are read through the model's tokens: an RRULE line is a list of
      ';'-separated parts (abstract type RR), `_parse_exdates_from_rrule` is a parameter returning
      (line without EXDATE parts, list of EXDATE strings);  `'EXDATE:' + ','.join(l)` is the part
      `mk_exdate_part l`;  f'{a};{b}' appends the part b to the line a (rr_snoc);  `x not in l` on a list of
      strings is existsb with string equality (parameter exd_eqb), negated;  l.append(x) is l ++ [x].
  R7  (_normalize_datetime, _to_timestamp)  A value that can be None, a date or a datetime is ONE abstract
      type DV (the source re-assigns `dt` from a date to a datetime).  isinstance(x, datetime), x.tzinfo,
      datetime.combine(d, time.min, tzinfo=z), x.replace(tzinfo=z), x.astimezone(z), x.replace(microsecond=0),
      x.timestamp() are parameters.  Instantiation (GenEq_gcsa2.v): dv = None | date (day number) | datetime in
      one of the model's presentations (fixed offset / zoneinfo zone / naive, with wall clock and fold);
      astimezone keeps the instant, replace(tzinfo=) keeps wall clock and fold, datetimes are whole seconds
      (replace(microsecond=0) is the identity), int(x.timestamp()) is the instant.
  R8  (_is_all_day_event)  A gcsa Event object always has the attributes start, end, timezone
      (`hasattr(e, 'start' / 'end' / 'timezone')` are read as True);  `_extract_datetime(v)` is a parameter
      (instantiated with the identity: for None, a date or a datetime the function returns its argument by
      its first and its last branch);  isinstance(v, date) holds of dates AND datetimes;  `hasattr(v, 'date')` /
      `getattr(v, 'date', None)` / `callable(..)`: a date has no attribute `date`, a datetime has the bound
      method date() (callable, not None);  e.timezone is None or a non-empty zone name (a falsy value is read
      as None), ZoneInfo(name) is total (an unknown name raises: not modelled) and returns the same object for
      the same name, so `end_local - start_local` of two datetimes carrying the same tzinfo is the difference
      of their WALL CLOCKS (PEP 495), of their instants otherwise;  a tzinfo object is truthy.
  R9  (Calendar._fetch_forward)  `self._calendar_timezone` is read as a pure attribute holding the value the
      lazily fetching property returns once it HAS been fetched (the theorems carry a_tz a = Some ctz);
      `self.calendar.get_events(time_min=, time_max=, single_events=True, order_by='startTime',
      calendar_id=self.calendar_id)` is a parameter returning the list the iterable yields (accepted only with
      exactly these keyword arguments);  `_extract_reminders` is a parameter;  `Event(...)` is a parameter
      taking the ten keyword arguments (id and summary as Optionals: the source passes e.id / e.summary after
      testing them);  `_UTC_TIMEZONE = 'UTC'` must be in the module.
  R10 (_prepare_event_for_add, _build_gcsa_event, _build_result_event, _convert_timestamps_to_datetime)
      `_validate_event(interval, require_id=False)` is a parameter returning (Event | None, errors | None); a
      non-None error list is truthy;  `assert event is not None` failing is the distinguished result
      pw_assertion_error;  `replace(event, id='', calendar_id=, calendar_summary=)`, `_PreparedEvent(..)`,
      `GcsaEvent(..)`, `Event(..)`, `WriteResult(..)`, `_convert_reminders_to_gcsa` are parameters (constructors
      of abstract types; a _PreparedEvent and a WriteResult share the type PW because one variable holds
      either);  local `start` / `end` are ints after the `event.start is None or event.end is None` test.
      Instantiation (GenEq_gcsa3.v): the event handed to add() is the model's wev.
  R11 (Calendar._add_recurring)  the two `metadata[...] = self....` stores are skipped (skip_stmts: they only
      affect `metadata`, read through the parameters md_*);  `{**pattern.metadata, **metadata}`, the lookups
      'start' in m / m['start'] / m.get('summary', 'Recurring Event') / m.get('description') / m.get('reminders'),
      f'RRULE:{pattern.to_rrule_string()}', sorted(pattern.exdates) (a frozenset: ascending distinct members),
      str(pattern.zone) == str(self._calendar_timezone or timezone.utc) (zone names equal), str(zone),
      isinstance(reminders, list), all(isinstance(r, Reminder) ..), datetime.now(zone), x.replace(hour=0, ..),
      x + timedelta, `self.calendar.add_event(ev, calendar_id=self.calendar_id)` (pure: returns the created
      event; an exception it raises is the decorator's business) are parameters.  `created_event.id` falsy is
      read as "no id".  Instantiation (GenEq_gcsa4.v): the pattern is the model's wpat (anchored), metadata
      carries the summary only; the RRULE text is (weekly, interval, byday, token line).
  R12 (_remove_recurring_instance, _handle_write_errors)  A backend call inside `try: .. except Exception` is a
      parameter returning (result + exception); BaseExceptions that are not Exceptions are not modelled.
      `master_event.recurrence` is read through mev_has_recurrence / mev_line (recurrence[0]) /
      mev_recurrence_with ([new, *recurrence[1:]]) and the store `master_event.recurrence = ..` through
      mev_set_recurrence (master_event is a local object fresh from get_event).  The error-message f-strings
      are parameters wrs_error_*.  _handle_write_errors: the wrapper must be `def wrapper(*args, **kwargs)` under
      @wraps(func) and be what the decorator returns; `func(*args, **kwargs)` is the parameter func_call.
  R13 (Calendar.fetch, _add_interval, _add_many, _add_many_batch)  the methods they call are parameters (the
      theorems instantiate them with the generated ones);  `created_event.id`: has-an-id test plus the id;
      only the LAST statement of _add_many_batch is translated (tail): `results` is a parameter, and
      `d.get(str(i), <Missing>)` is the lookup results_get_or_missing d i (str is injective on ints).
"""
from . import pysrc_gcsa  # noqa: F401  (installs the gx extension on pysrc.Tr)

GCSA = "calgebra/gcsa.py"
DT_IMPORT = "from datetime import date, datetime, time, timedelta, timezone"

# the datetime library as parameters (R1, R2)
DT_TYVARS = ["TZ", "DT", "TIME", "TD"]
DT_TYPES = {"TZ": "TZ", "DT": "DT", "TIME": "TIME", "TD": "TD"}

# parameter groups shared by several specs (a generated definition that calls another passes them on)
NORM_PARAMS = [("tz_utc", "TZ"), ("time_min", "TIME"), ("dv_is_datetime", "DV -> bool"),
               ("dv_tzinfo", "DV -> option TZ"), ("dv_combine", "DV -> TIME -> TZ -> DV"),
               ("dv_replace_tzinfo", "DV -> TZ -> DV"), ("dv_astimezone", "DV -> TZ -> DV")]
ALLDAY_PARAMS = [("tz_utc", "TZ"), ("zoneinfo", "TZNAME -> TZ"),
                 ("gev_start", "EVT -> DV"), ("gev_end", "EVT -> DV"), ("gev_timezone", "EVT -> option TZNAME"),
                 ("extract_datetime", "DV -> DV"), ("dv_is_date", "DV -> bool"), ("dv_is_datetime", "DV -> bool"),
                 ("dv_has_date_attr", "DV -> bool"), ("dv_date_attr", "DV -> ATTR"),
                 ("attr_is_none", "ATTR -> bool"), ("attr_callable", "ATTR -> bool"),
                 ("dv_tzinfo", "DV -> option TZ"), ("dv_astimezone", "DV -> TZ -> DV"),
                 ("dv_replace_tzinfo", "DV -> TZ -> DV"), ("dv_time", "DV -> TIME"), ("time_min", "TIME"),
                 ("time_neb", "TIME -> TIME -> bool"), ("dv_sub", "DV -> DV -> TD"), ("td_days", "TD -> Z"),
                 ("td_of_days", "Z -> TD"), ("td_of_hours", "Z -> TD"), ("td_sub", "TD -> TD -> TD"),
                 ("td_leb", "TD -> TD -> bool")]

def _merge_params(*groups):
    out = []
    for g in groups:
        for n, t in g:
            if (n, t) not in out:
                assert n not in [x for x, _ in out], n
                out.append((n, t))
    return out


FWD_TYVARS = ["TZ", "TZNAME", "DV", "TIME", "TD", "ATTR", "EVT", "DT", "ID", "RID", "SUM", "DESC", "REMS", "CID", "CSUM",
              "AEV"]
FWD_PARAMS = _merge_params(
    ALLDAY_PARAMS, NORM_PARAMS,
    [("dv_combine", "DV -> TIME -> TZ -> DV"), ("dv_replace_us", "DV -> Z -> DV"), ("dv_timestamp", "DV -> Z"),
     ("dv_is_none", "DV -> bool"), ("tzname_utc", "TZNAME"), ("dt_fromtimestamp", "Z -> TZ -> DT"),
     ("get_events", "option DT -> option DT -> list EVT"),
     ("gev_id", "EVT -> option ID"), ("gev_summary", "EVT -> option SUM"), ("gev_description", "EVT -> option DESC"),
     ("gev_recurring_event_id", "EVT -> option RID"), ("extract_reminders", "EVT -> REMS"),
     ("mk_event", "option ID -> CID -> CSUM -> option SUM -> option DESC -> option RID -> bool -> REMS -> Z -> Z -> AEV"),
     ("self_calendar_id", "CID"), ("self_calendar_summary", "CSUM"), ("self_calendar_timezone", "O:TZ")])

INFER_PARAMS = [("tz_utc", "TZ"), ("dt_fromtimestamp", "Z -> TZ -> DT"), ("dt_time", "DT -> TIME"),
                ("time_min", "TIME"), ("time_neb", "TIME -> TIME -> bool"),
                ("td_of_seconds", "Z -> TD"), ("td_of_days", "Z -> TD"), ("td_of_hours", "Z -> TD"),
                ("td_days", "TD -> Z"), ("td_sub", "TD -> TD -> TD"), ("td_gtb", "TD -> TD -> bool")]
CONV_PARAMS = [("tz_utc", "TZ"), ("dv_fromtimestamp", "Z -> TZ -> DV"), ("dv_date", "DV -> DV")]
PREP_TYVARS = ["TZ", "DT", "TIME", "TD", "DV", "IVLX", "EVENT", "ERRS", "PW", "CID", "CSUM"]
PREP_PARAMS = _merge_params(
    INFER_PARAMS, CONV_PARAMS,
    [("validate_event", "IVLX -> option EVENT * option ERRS"), ("errs_first", "ERRS -> PW"),
     ("pw_assertion_error", "PW"), ("wr_unbounded", "EVENT -> PW"),
     ("ev_start", "EVENT -> option Z"), ("ev_end", "EVENT -> option Z"), ("ev_is_all_day", "EVENT -> option bool"),
     ("ev_for_calendar", "EVENT -> CID -> CSUM -> EVENT"),
     ("mk_prepared", "EVENT -> Z -> Z -> bool -> DV -> DV -> PW")])
BUILD_TYVARS = ["DV", "TZNAME", "EVENT", "PW", "SUM", "ODESC", "REMS", "GREMS", "GEV", "CID", "CSUM"]
BUILD_PARAMS = [("pw_event", "PW -> EVENT"), ("pw_start_dt", "PW -> DV"), ("pw_end_dt", "PW -> DV"),
                ("pw_is_all_day", "PW -> bool"), ("ev_summary", "EVENT -> SUM"), ("ev_description", "EVENT -> ODESC"),
                ("ev_reminders", "EVENT -> REMS")]
PW_ATTRS = {("PW", "event"): ("pw_event", "EVENT"), ("PW", "start_dt"): ("pw_start_dt", "DV"),
            ("PW", "end_dt"): ("pw_end_dt", "DV"), ("PW", "is_all_day"): ("pw_is_all_day", "B"),
            ("EVENT", "summary"): ("ev_summary", "SUM"), ("EVENT", "description"): ("ev_description", "ODESC"),
            ("EVENT", "reminders"): ("ev_reminders", "REMS")}

REC_TYVARS = ["TZ", "TZNAME", "DV", "TIME", "TD", "EXD", "RR", "PART", "PAT", "MD", "SUM", "ODESC", "REMV", "GREMS", "GEV",
              "CREATED", "ID", "RID", "CID", "CSUM", "AEV", "WRS"]
REC_PARAMS = [("tz_utc", "TZ"), ("dv_fromtimestamp", "Z -> TZ -> DV"), ("dv_time", "DV -> TIME"), ("time_min", "TIME"),
              ("time_neb", "TIME -> TIME -> bool"), ("td_of_seconds", "Z -> TD"), ("td_of_days", "Z -> TD"),
              ("td_of_hours", "Z -> TD"), ("td_days", "TD -> Z"), ("td_sub", "TD -> TD -> TD"),
              ("td_gtb", "TD -> TD -> bool"), ("dv_date", "DV -> DV"), ("dv_now", "TZ -> DV"),
              ("dv_midnight", "DV -> DV"), ("dv_add", "DV -> TD -> DV"), ("dv_timestamp", "DV -> Z"),
              ("dt_strftime_exdate", "DV -> EXD"),
              ("parse_exdates_from_rrule", "RR -> RR * list EXD"), ("exd_eqb", "EXD -> EXD -> bool"),
              ("mk_exdate_part", "list EXD -> PART"), ("rr_snoc", "RR -> PART -> RR"),
              ("md_merge", "PAT -> MD -> MD"), ("pat_rrule_line", "PAT -> RR"), ("py_sorted", "list Z -> list Z"),
              ("md_has_start", "MD -> bool"), ("md_start", "MD -> Z"), ("tz_name_eqb", "TZ -> TZ -> bool"),
              ("tz_name", "TZ -> TZNAME"),
              ("md_summary", "MD -> SUM"), ("md_description", "MD -> ODESC"), ("md_reminders", "MD -> REMV"),
              ("remv_is_list", "REMV -> bool"), ("remv_all_reminders", "REMV -> bool"),
              ("convert_reminders_to_gcsa", "REMV -> GREMS"), ("wrs_bad_reminders", "WRS"), ("wrs_no_id", "WRS"),
              ("wrs_success", "AEV -> WRS"),
              ("mk_gcsa_rec_event", "SUM -> DV -> DV -> option TZNAME -> ODESC -> option GREMS -> RR -> GEV"),
              ("add_event", "GEV -> CREATED"), ("created_id", "CREATED -> option ID"),
              ("mk_result_event",
               "option ID -> CID -> CSUM -> SUM -> ODESC -> option RID -> bool -> option REMV -> Z -> Z -> AEV"),
              ("pat_exdates", "PAT -> list Z"), ("pat_anchor_timestamp", "PAT -> option Z"), ("pat_zone", "PAT -> TZ"),
              ("pat_start_seconds", "PAT -> Z"), ("pat_duration_seconds", "PAT -> Z"),
              ("self_calendar_id", "CID"), ("self_calendar_summary", "CSUM"), ("self_calendar_timezone", "O:TZ")]

RM_TYVARS = ["TZ", "DT", "EXD", "RR", "PART", "RECL", "MEV", "ID", "AEV", "EXC", "WRS"]
RM_PARAMS = [("tz_utc", "TZ"), ("dt_fromtimestamp", "Z -> TZ -> DT"), ("dt_strftime_exdate", "DT -> EXD"),
             ("parse_exdates_from_rrule", "RR -> RR * list EXD"), ("exd_eqb", "EXD -> EXD -> bool"),
             ("mk_exdate_part", "list EXD -> PART"), ("rr_snoc", "RR -> PART -> RR"),
             ("get_event", "ID -> MEV + EXC"), ("update_event", "MEV -> unit + EXC"),
             ("mev_has_recurrence", "MEV -> bool"), ("mev_line", "MEV -> RR"),
             ("mev_recurrence_with", "MEV -> RR -> RECL"), ("mev_set_recurrence", "MEV -> RECL -> MEV"),
             ("wrs_error_fetch", "ID -> EXC -> WRS"), ("wrs_error_norec", "ID -> WRS"), ("wrs_error_nostart", "WRS"),
             ("wrs_error_update", "EXC -> WRS"), ("wrs_success", "AEV -> WRS"), ("aev_start", "AEV -> option Z")]

SPECS_GCSA = [
    # ---- _infer_is_all_day
    dict(name="g_gcsa_infer_is_all_day", file=GCSA, func="_infer_is_all_day", kind="expr", ret="B", gx=True,
         file_has=[DT_IMPORT], tyvars=DT_TYVARS, types=DT_TYPES,
         params=[("tz_utc", "TZ"), ("dt_fromtimestamp", "Z -> TZ -> DT"), ("dt_time", "DT -> TIME"),
                 ("time_min", "TIME"), ("time_neb", "TIME -> TIME -> bool"),
                 ("td_of_seconds", "Z -> TD"), ("td_of_days", "Z -> TD"), ("td_of_hours", "Z -> TD"),
                 ("td_days", "TD -> Z"), ("td_sub", "TD -> TD -> TD"), ("td_gtb", "TD -> TD -> bool"),
                 ("start_ts", "Z"), ("end_ts", "Z"), ("calendar_tz", "O:TZ")],
         text_exprs={"timezone.utc": ("tz_utc", "TZ"), "time.min": ("time_min", "TIME")},
         calls={"datetime.fromtimestamp": dict(coq="dt_fromtimestamp", args=["Z"], kw=[("tz", "TZ")], ret="DT"),
                "timedelta": [dict(coq="td_of_seconds", args=[], kw=[("seconds", "Z")], ret="TD"),
                              dict(coq="td_of_days", args=[], kw=[("days", "Z")], ret="TD"),
                              dict(coq="td_of_hours", args=[], kw=[("hours", "Z")], ret="TD")]},
         methods={("DT", "time"): dict(coq="dt_time", args=[], ret="TIME")},
         attrs={("TD", "days"): ("td_days", "Z")},
         binops={("TD", "-", "TD"): ("td_sub", "TD")},
         cmpops={("TIME", "!=", "TIME"): "time_neb", ("TD", ">", "TD"): "td_gtb"}),
    # ---- Calendar._fetch_reverse: the 30-day window loop (R4)
    dict(name="g_gcsa_fetch_reverse", file=GCSA, cls="Calendar", func="_fetch_reverse", kind="gen", res=True,
         gx=True, tyvars=["EV"], types={"EV": "EV"}, out_type="EV", yield_type="EV",
         params=[("fetch_forward", "option Z -> option Z -> list EV"), ("ev_start", "EV -> Z"),
                 ("start", "OZ"), ("end", "OZ")],
         calls={"self._fetch_forward": ("fetch_forward", ["OZ", "OZ"], "L:EV")},
         attrs={("EV", "start"): ("ev_start", "Z")}),
    # ---- _timestamp_to_datetime, _format_exdate (R5)
    dict(name="g_gcsa_ts_to_dt", file=GCSA, func="_timestamp_to_datetime", kind="expr", ret="DT", gx=True,
         file_has=[DT_IMPORT], tyvars=["TZ", "DT"], types={"TZ": "TZ", "DT": "DT"},
         params=[("tz_utc", "TZ"), ("dt_fromtimestamp", "Z -> TZ -> DT"), ("ts", "Z")],
         text_exprs={"timezone.utc": ("tz_utc", "TZ")},
         calls={"datetime.fromtimestamp": dict(coq="dt_fromtimestamp", args=["Z"], kw=[("tz", "TZ")], ret="DT")}),
    dict(name="g_gcsa_format_exdate", file=GCSA, func="_format_exdate", kind="expr", ret="EXD", gx=True,
         file_has=[DT_IMPORT, "_EXDATE_FORMAT = '%Y%m%dT%H%M%SZ'"],
         tyvars=["TZ", "DT", "EXD"], types={"TZ": "TZ", "DT": "DT", "EXD": "EXD"},
         params=[("tz_utc", "TZ"), ("dt_fromtimestamp", "Z -> TZ -> DT"), ("dt_strftime_exdate", "DT -> EXD"),
                 ("timestamp", "Z")],
         calls={"_timestamp_to_datetime": dict(coq="g_gcsa_ts_to_dt", pre=["tz_utc", "dt_fromtimestamp"],
                                               args=["Z"], ret="DT")},
         patterns=[("_1.strftime(_EXDATE_FORMAT)", "(dt_strftime_exdate {0})", ["DT"], "EXD")]),
    # ---- _add_exdate_to_rrule (R6)
    dict(name="g_gcsa_add_exdate_to_rrule", file=GCSA, func="_add_exdate_to_rrule", kind="expr", ret="RR", gx=True,
         tyvars=["RR", "EXD", "PART"], types={"RR": "RR", "EXD": "EXD", "PART": "PART", "PARSED": "(RR * list EXD)"},
         tuples={"PARSED": ["RR", "L:EXD"]}, eqbs={"EXD": "exd_eqb"},
         params=[("parse_exdates_from_rrule", "RR -> RR * list EXD"), ("exd_eqb", "EXD -> EXD -> bool"),
                 ("mk_exdate_part", "list EXD -> PART"), ("rr_snoc", "RR -> PART -> RR"),
                 ("rrule_str", "RR"), ("exdate_str", "EXD")],
         calls={"_parse_exdates_from_rrule": ("parse_exdates_from_rrule", ["RR"], "PARSED")},
         patterns=[("'EXDATE:' + ','.join(_1)", "(mk_exdate_part {0})", ["L:EXD"], "PART"),
                   ("f'{_1};{_2}'", "(rr_snoc {0} {1})", ["RR", "PART"], "RR")]),
    # ---- _normalize_datetime, _to_timestamp (R7).  A date / datetime / None value is one abstract type DV
    # ("what e.start can be"); the source re-assigns `dt` from a date to a datetime, so both live in DV.
    dict(name="g_gcsa_normalize_datetime", file=GCSA, func="_normalize_datetime", kind="expr", ret="DV", gx=True,
         file_has=[DT_IMPORT], tyvars=["TZ", "DV", "TIME"], types={"TZ": "TZ", "DV": "DV", "TIME": "TIME"},
         truthy=["TZ"],
         params=NORM_PARAMS + [("dt", "DV"), ("zone", "O:TZ")],
         text_exprs={"timezone.utc": ("tz_utc", "TZ"), "time.min": ("time_min", "TIME")},
         patterns=[("isinstance(_1, datetime)", "(dv_is_datetime {0})", ["DV"], "B")],
         calls={"datetime.combine": dict(coq="dv_combine", args=["DV", "TIME"], kw=[("tzinfo", "TZ")], ret="DV")},
         attrs={("DV", "tzinfo"): ("dv_tzinfo", "O:TZ")},
         methods={("DV", "replace"): dict(coq="dv_replace_tzinfo", args=[], kw=[("tzinfo", "TZ")], ret="DV"),
                  ("DV", "astimezone"): dict(coq="dv_astimezone", args=["TZ"], ret="DV")}),
    dict(name="g_gcsa_to_timestamp", file=GCSA, func="_to_timestamp", kind="expr", ret="Z", gx=True,
         file_has=[DT_IMPORT], tyvars=["TZ", "DV", "TIME"], types={"TZ": "TZ", "DV": "DV", "TIME": "TIME"},
         params=NORM_PARAMS + [("dv_replace_us", "DV -> Z -> DV"), ("dv_timestamp", "DV -> Z"),
                               ("dt", "DV"), ("zone", "O:TZ")],
         calls={"_normalize_datetime": dict(coq="g_gcsa_normalize_datetime", pre=[n for n, _ in NORM_PARAMS],
                                            args=["DV", "O:TZ"], ret="DV")},
         methods={("DV", "replace"): dict(coq="dv_replace_us", args=[], kw=[("microsecond", "Z")], ret="DV"),
                  ("DV", "timestamp"): dict(coq="dv_timestamp", args=[], ret="Z")}),
    # ---- _is_all_day_event (R8)
    dict(name="g_gcsa_is_all_day_event", file=GCSA, func="_is_all_day_event", kind="expr", ret="B", gx=True,
         file_has=[DT_IMPORT, "from zoneinfo import ZoneInfo"],
         tyvars=["TZ", "TZNAME", "DV", "TIME", "TD", "ATTR", "EVT"],
         types={"TZ": "TZ", "TZNAME": "TZNAME", "DV": "DV", "TIME": "TIME", "TD": "TD", "ATTR": "ATTR", "EVT": "EVT"},
         truthy=["TZ", "TZNAME"],
         params=ALLDAY_PARAMS + [("gcsa_event", "EVT")],
         text_exprs={"timezone.utc": ("tz_utc", "TZ"), "time.min": ("time_min", "TIME")},
         patterns=[("hasattr(_1, 'start')", "true", ["EVT"], "B"), ("hasattr(_1, 'end')", "true", ["EVT"], "B"),
                   ("hasattr(_1, 'timezone')", "true", ["EVT"], "B"),
                   ("isinstance(_1, date)", "(dv_is_date {0})", ["DV"], "B"),
                   ("isinstance(_1, datetime)", "(dv_is_datetime {0})", ["DV"], "B"),
                   ("hasattr(_1, 'date')", "(dv_has_date_attr {0})", ["DV"], "B"),
                   ("getattr(_1, 'date', None)", "(dv_date_attr {0})", ["DV"], "ATTR"),
                   ("_1 is not None", "(negb (attr_is_none {0}))", ["ATTR"], "B"),
                   ("callable(_1)", "(attr_callable {0})", ["ATTR"], "B")],
         calls={"_extract_datetime": ("extract_datetime", ["DV"], "DV"),
                "ZoneInfo": ("zoneinfo", ["TZNAME"], "TZ"),
                "timedelta": [dict(coq="td_of_days", args=[], kw=[("days", "Z")], ret="TD"),
                              dict(coq="td_of_hours", args=[], kw=[("hours", "Z")], ret="TD")]},
         attrs={("EVT", "start"): ("gev_start", "DV"), ("EVT", "end"): ("gev_end", "DV"),
                ("EVT", "timezone"): ("gev_timezone", "O:TZNAME"),
                ("DV", "tzinfo"): ("dv_tzinfo", "O:TZ"), ("TD", "days"): ("td_days", "Z")},
         methods={("DV", "astimezone"): dict(coq="dv_astimezone", args=["TZ"], ret="DV"),
                  ("DV", "replace"): dict(coq="dv_replace_tzinfo", args=[], kw=[("tzinfo", "TZ")], ret="DV"),
                  ("DV", "time"): dict(coq="dv_time", args=[], ret="TIME")},
         binops={("DV", "-", "DV"): ("dv_sub", "TD"), ("TD", "-", "TD"): ("td_sub", "TD")},
         cmpops={("TIME", "!=", "TIME"): "time_neb", ("TD", "<=", "TD"): "td_leb"}),
    # ---- Calendar._fetch_forward: the per-event conversion loop (R9)
    dict(name="g_gcsa_fetch_forward", file=GCSA, cls="Calendar", func="_fetch_forward", kind="gen", gx=True,
         file_has=[DT_IMPORT, "from zoneinfo import ZoneInfo", "_UTC_TIMEZONE = 'UTC'"],
         tyvars=FWD_TYVARS, types={k: k for k in FWD_TYVARS},
         truthy=["TZ", "TZNAME"], out_type="AEV", yield_type="AEV",
         params=FWD_PARAMS + [("start", "OZ"), ("end", "OZ")],
         selfattrs={"calendar_id": ("self_calendar_id", "CID"), "calendar_summary": ("self_calendar_summary", "CSUM"),
                    "_calendar_timezone": ("self_calendar_timezone", "O:TZ")},
         text_exprs={"ZoneInfo(_UTC_TIMEZONE)": ("(zoneinfo tzname_utc)", "TZ")},
         patterns=[("_1 is None", "(dv_is_none {0})", ["DV"], "B"),
                   ("getattr(_1, 'recurring_event_id', None)", "(gev_recurring_event_id {0})", ["EVT"], "O:RID")],
         calls={"_timestamp_to_datetime": dict(coq="g_gcsa_ts_to_dt", pre=["tz_utc", "dt_fromtimestamp"], args=["Z"],
                                               ret="DT"),
                "self.calendar.get_events": dict(coq="get_events", args=[], kw=[("time_min", "O:DT"), ("time_max", "O:DT")],
                                                 fixed={"single_events": "True", "order_by": "'startTime'",
                                                        "calendar_id": "self.calendar_id"}, ret="L:EVT"),
                "ZoneInfo": ("zoneinfo", ["TZNAME"], "TZ"),
                "_is_all_day_event": dict(coq="g_gcsa_is_all_day_event", pre=[n for n, _ in ALLDAY_PARAMS],
                                          args=["EVT"], ret="B"),
                "_extract_reminders": ("extract_reminders", ["EVT"], "REMS"),
                "_extract_datetime": ("extract_datetime", ["DV"], "DV"),
                "_to_timestamp": dict(coq="g_gcsa_to_timestamp",
                                      pre=[n for n, _ in NORM_PARAMS] + ["dv_replace_us", "dv_timestamp"],
                                      args=["DV", "O:TZ"], ret="Z"),
                "Event": dict(coq="mk_event", args=[],
                              kw=[("id", "O:ID"), ("calendar_id", "CID"), ("calendar_summary", "CSUM"),
                                  ("summary", "O:SUM"), ("description", "O:DESC"), ("recurring_event_id", "O:RID"),
                                  ("is_all_day", "B"), ("reminders", "REMS"), ("start", "Z"), ("end", "Z")],
                              ret="AEV")},
         attrs={("EVT", "start"): ("gev_start", "DV"), ("EVT", "end"): ("gev_end", "DV"),
                ("EVT", "timezone"): ("gev_timezone", "O:TZNAME"), ("EVT", "id"): ("gev_id", "O:ID"),
                ("EVT", "summary"): ("gev_summary", "O:SUM"), ("EVT", "description"): ("gev_description", "O:DESC")}),
    # ---- the write path: _convert_timestamps_to_datetime, _prepare_event_for_add, _build_gcsa_event,
    # _build_result_event (R10)
    dict(name="g_gcsa_convert_timestamps", file=GCSA, func="_convert_timestamps_to_datetime", kind="expr", ret="DVPAIR",
         gx=True, file_has=[DT_IMPORT], tyvars=["TZ", "DV"], types={"TZ": "TZ", "DV": "DV", "DVPAIR": "(DV * DV)"},
         tuples={"DVPAIR": ["DV", "DV"]},
         params=CONV_PARAMS + [("start_ts", "Z"), ("end_ts", "Z"), ("is_all_day", "B"), ("calendar_tz", "O:TZ")],
         text_exprs={"timezone.utc": ("tz_utc", "TZ")},
         calls={"datetime.fromtimestamp": dict(coq="dv_fromtimestamp", args=["Z"], kw=[("tz", "TZ")], ret="DV"),
                "_timestamp_to_datetime": dict(coq="g_gcsa_ts_to_dt", pre=["tz_utc", "dv_fromtimestamp"], args=["Z"],
                                               ret="DV")},
         methods={("DV", "date"): dict(coq="dv_date", args=[], ret="DV")}),
    dict(name="g_gcsa_prepare_event_for_add", file=GCSA, func="_prepare_event_for_add", kind="expr", ret="PW", gx=True,
         file_has=[DT_IMPORT], tyvars=PREP_TYVARS, types=dict({k: k for k in PREP_TYVARS}, VAL="(option EVENT * option ERRS)",
                                                             DVPAIR="(DV * DV)"),
         tuples={"VAL": ["O:EVENT", "O:ERRS"], "DVPAIR": ["DV", "DV"]}, truthy=["ERRS"],
         locals={"start": "Z", "end": "Z"}, assert_fail="pw_assertion_error",
         params=PREP_PARAMS + [("interval", "IVLX"), ("calendar_id", "CID"), ("calendar_summary", "CSUM"),
                               ("calendar_tz", "O:TZ")],
         patterns=[("_1[0]", "(errs_first {0})", ["ERRS"], "PW"),
                   ("WriteResult(success=False, event=_1, error=ValueError('Event must have finite start and end'))",
                    "(wr_unbounded {0})", ["EVENT"], "PW"),
                   ("replace(_1, id='', calendar_id=_2, calendar_summary=_3)", "(ev_for_calendar {0} {1} {2})",
                    ["EVENT", "CID", "CSUM"], "EVENT")],
         calls={"_validate_event": dict(coq="validate_event", args=["IVLX"], fixed={"require_id": "False"}, ret="VAL"),
                "_infer_is_all_day": dict(coq="g_gcsa_infer_is_all_day", pre=[n for n, _ in INFER_PARAMS],
                                          args=["Z", "Z", "O:TZ"], ret="B"),
                "_convert_timestamps_to_datetime": dict(coq="g_gcsa_convert_timestamps", pre=[n for n, _ in CONV_PARAMS],
                                                        args=["Z", "Z", "B", "O:TZ"], ret="DVPAIR"),
                "_PreparedEvent": dict(coq="mk_prepared", args=[],
                                       kw=[("event", "EVENT"), ("start", "Z"), ("end", "Z"), ("is_all_day", "B"),
                                           ("start_dt", "DV"), ("end_dt", "DV")], ret="PW")},
         attrs={("EVENT", "start"): ("ev_start", "OZ"), ("EVENT", "end"): ("ev_end", "OZ"),
                ("EVENT", "is_all_day"): ("ev_is_all_day", "O:B")}),
    dict(name="g_gcsa_build_gcsa_event", file=GCSA, func="_build_gcsa_event", kind="expr", ret="GEV", gx=True,
         file_has=["_UTC_TIMEZONE = 'UTC'"], tyvars=[t for t in BUILD_TYVARS if t not in ("CID", "CSUM")], types={k: k for k in BUILD_TYVARS},
         params=BUILD_PARAMS + [("mk_gcsa_event", "SUM -> DV -> DV -> option TZNAME -> ODESC -> GREMS -> GEV"),
                                ("convert_reminders_to_gcsa", "REMS -> GREMS"), ("tzname_utc", "TZNAME"),
                                ("prepared", "PW")],
         text_exprs={"_UTC_TIMEZONE": ("tzname_utc", "TZNAME")},
         calls={"_convert_reminders_to_gcsa": ("convert_reminders_to_gcsa", ["REMS"], "GREMS"),
                "GcsaEvent": dict(coq="mk_gcsa_event", args=[],
                                  kw=[("summary", "SUM"), ("start", "DV"), ("end", "DV"), ("timezone", "O:TZNAME"),
                                      ("description", "ODESC"), ("reminders", "GREMS")], ret="GEV")},
         attrs=PW_ATTRS),
    dict(name="g_gcsa_build_result_event", file=GCSA, func="_build_result_event", kind="expr", ret="AEV", gx=True,
         tyvars=[t for t in BUILD_TYVARS + ["ID", "RID", "AEV"] if t not in ("TZNAME", "GREMS", "GEV")],
         types={k: k for k in BUILD_TYVARS + ["ID", "RID", "AEV"]},
         params=BUILD_PARAMS + [("ev_calendar_id", "EVENT -> CID"), ("ev_calendar_summary", "EVENT -> CSUM"),
                                ("pw_start", "PW -> Z"), ("pw_end", "PW -> Z"),
                                ("mk_result_event",
                                 "ID -> CID -> CSUM -> SUM -> ODESC -> option RID -> bool -> REMS -> Z -> Z -> AEV"),
                                ("prepared", "PW"), ("event_id", "ID")],
         calls={"Event": dict(coq="mk_result_event", args=[],
                              kw=[("id", "ID"), ("calendar_id", "CID"), ("calendar_summary", "CSUM"), ("summary", "SUM"),
                                  ("description", "ODESC"), ("recurring_event_id", "O:RID"), ("is_all_day", "B"),
                                  ("reminders", "REMS"), ("start", "Z"), ("end", "Z")], ret="AEV")},
         attrs={**PW_ATTRS, ("EVENT", "calendar_id"): ("ev_calendar_id", "CID"),
                ("EVENT", "calendar_summary"): ("ev_calendar_summary", "CSUM"),
                ("PW", "start"): ("pw_start", "Z"), ("PW", "end"): ("pw_end", "Z")}),
    # ---- Calendar._add_recurring (R11): under @_handle_write_errors (translated separately below)
    dict(name="g_gcsa_add_recurring", file=GCSA, cls="Calendar", func="_add_recurring", kind="expr", ret="WRS", gx=True,
         decorators_ok=["_handle_write_errors"],
         file_has=[DT_IMPORT, "from calgebra.util import DAY"],
         tyvars=REC_TYVARS, types=dict({k: k for k in REC_TYVARS}, DVPAIR="(DV * DV)", PARSED="(RR * list EXD)"),
         tuples={"DVPAIR": ["DV", "DV"]}, truthy=["TZ", "ID"],
         locals={"series_start_ts": "Z", "gcsa_reminders": "O:GREMS", "validated_reminders": "O:REMV"},
         params=REC_PARAMS + [("pattern", "PAT"), ("metadata", "MD")],
         selfattrs={"calendar_id": ("self_calendar_id", "CID"), "calendar_summary": ("self_calendar_summary", "CSUM"),
                    "_calendar_timezone": ("self_calendar_timezone", "O:TZ")},
         skip_stmts=["metadata['calendar_id'] = self.calendar_id",
                     "metadata['calendar_summary'] = self.calendar_summary"],
         patterns=[("{**_1.metadata, **_2}", "(md_merge {0} {1})", ["PAT", "MD"], "MD"),
                   ("f'RRULE:{_1.to_rrule_string()}'", "(pat_rrule_line {0})", ["PAT"], "RR"),
                   ("sorted(_1)", "(py_sorted {0})", ["L:Z"], "L:Z"),
                   ("'start' in _1", "(md_has_start {0})", ["MD"], "B"),
                   ("_1['start']", "(md_start {0})", ["MD"], "Z"),
                   ("str(_1) == str(_2 or timezone.utc)",
                    "(tz_name_eqb {0} (match {1} with Some v_ => v_ | None => tz_utc end))", ["TZ", "O:TZ"], "B"),
                   ("_1.get('summary', 'Recurring Event')", "(md_summary {0})", ["MD"], "SUM"),
                   ("_1.get('description')", "(md_description {0})", ["MD"], "ODESC"),
                   ("_1.get('reminders')", "(md_reminders {0})", ["MD"], "REMV"),
                   ("isinstance(_1, list)", "(remv_is_list {0})", ["REMV"], "B"),
                   ("all((isinstance(r, Reminder) for r in _1))", "(remv_all_reminders {0})", ["REMV"], "B"),
                   ("_error_result(TypeError('reminders metadata must contain Reminder objects'))",
                    "wrs_bad_reminders", [], "WRS"),
                   ("_error_result(ValueError('Google Calendar did not return an event ID'))", "wrs_no_id", [], "WRS"),
                   ("str(_1)", "(tz_name {0})", ["TZ"], "TZNAME"),
                   ("[WriteResult(success=True, event=_1, error=None)]", "(wrs_success {0})", ["AEV"], "WRS")],
         calls={"_format_exdate": dict(coq="g_gcsa_format_exdate", pre=["tz_utc", "dv_fromtimestamp", "dt_strftime_exdate"],
                                       args=["Z"], ret="EXD"),
                "_add_exdate_to_rrule": dict(coq="g_gcsa_add_exdate_to_rrule",
                                             pre=["parse_exdates_from_rrule", "exd_eqb", "mk_exdate_part", "rr_snoc"],
                                             args=["RR", "EXD"], ret="RR"),
                "datetime.now": ("dv_now", ["TZ"], "DV"),
                "timedelta": dict(coq="td_of_seconds", args=[], kw=[("seconds", "Z")], ret="TD"),
                "datetime.fromtimestamp": dict(coq="dv_fromtimestamp", args=["Z"], kw=[("tz", "TZ")], ret="DV"),
                "_infer_is_all_day": dict(coq="g_gcsa_infer_is_all_day",
                                          pre=["tz_utc", "dv_fromtimestamp", "dv_time", "time_min", "time_neb",
                                               "td_of_seconds", "td_of_days", "td_of_hours", "td_days", "td_sub",
                                               "td_gtb"],
                                          args=["Z", "Z", "O:TZ"], ret="B"),
                "_convert_timestamps_to_datetime": dict(coq="g_gcsa_convert_timestamps",
                                                        pre=["tz_utc", "dv_fromtimestamp", "dv_date"],
                                                        args=["Z", "Z", "B", "O:TZ"], ret="DVPAIR"),
                "_convert_reminders_to_gcsa": ("convert_reminders_to_gcsa", ["REMV"], "GREMS"),
                "GcsaEvent": dict(coq="mk_gcsa_rec_event", args=[],
                                  kw=[("summary", "SUM"), ("start", "DV"), ("end", "DV"), ("timezone", "O:TZNAME"),
                                      ("description", "ODESC"), ("reminders", "O:GREMS"), ("recurrence", "RR")],
                                  ret="GEV"),
                "self.calendar.add_event": dict(coq="add_event", args=["GEV"], fixed={"calendar_id": "self.calendar_id"},
                                                ret="CREATED"),
                "Event": dict(coq="mk_result_event", args=[],
                              kw=[("id", "O:ID"), ("calendar_id", "CID"), ("calendar_summary", "CSUM"), ("summary", "SUM"),
                                  ("description", "ODESC"), ("recurring_event_id", "O:RID"), ("is_all_day", "B"),
                                  ("reminders", "O:REMV"), ("start", "Z"), ("end", "Z")], ret="AEV")},
         attrs={("PAT", "exdates"): ("pat_exdates", "L:Z"), ("PAT", "anchor_timestamp"): ("pat_anchor_timestamp", "OZ"),
                ("PAT", "zone"): ("pat_zone", "TZ"), ("PAT", "start_seconds"): ("pat_start_seconds", "Z"),
                ("PAT", "duration_seconds"): ("pat_duration_seconds", "Z"), ("CREATED", "id"): ("created_id", "O:ID")},
         methods={("DV", "replace"): dict(coq="dv_midnight", args=[],
                                          fixed={"hour": "0", "minute": "0", "second": "0", "microsecond": "0"}, ret="DV"),
                  ("DV", "timestamp"): dict(coq="dv_timestamp", args=[], ret="Z")},
         binops={("DV", "+", "TD"): ("dv_add", "DV")}),
    # ---- _error_result, the wrapper of _handle_write_errors, Calendar._remove_recurring_instance (R12)
    dict(name="g_gcsa_error_result", file=GCSA, func="_error_result", kind="expr", ret="WRS", gx=True,
         tyvars=["EXC", "WRS"], types={"EXC": "EXC", "WRS": "WRS"},
         params=[("wrs_error", "EXC -> WRS"), ("error", "EXC")],
         patterns=[("[WriteResult(success=False, event=None, error=_1)]", "(wrs_error {0})", ["EXC"], "WRS")]),
    dict(name="g_gcsa_handle_write_errors", file=GCSA, func="_handle_write_errors", inner_def="wrapper", kind="expr",
         ret="WRS", res=True, gx=True, file_has=["from functools import wraps"],
         tyvars=["EXC", "WRS"], types={"EXC": "EXC", "WRS": "WRS"},
         params=[("wrs_error", "EXC -> WRS"), ("func_call", "WRS + EXC")],
         try_calls={"func(*args, **kwargs)": ("func_call", "WRS")},
         calls={"_error_result": dict(coq="g_gcsa_error_result", pre=["wrs_error"], args=["EXC"], ret="WRS")}),
    dict(name="g_gcsa_remove_recurring_instance", file=GCSA, cls="Calendar", func="_remove_recurring_instance",
         kind="expr", ret="WRS", res=True, gx=True, file_has=[DT_IMPORT],
         tyvars=RM_TYVARS, types=dict({k: k for k in RM_TYVARS}, PARSED="(RR * list EXD)", U="unit"),
         tuples={"PARSED": ["RR", "L:EXD"]}, eqbs={"EXD": "exd_eqb"},
         params=RM_PARAMS + [("instance", "AEV"), ("master_event_id", "ID")],
         try_calls={"self.calendar.get_event": dict(coq="get_event", args=["ID"],
                                                    fixed={"calendar_id": "self.calendar_id"}, ret="MEV"),
                    "self.calendar.update_event": dict(coq="update_event", args=["MEV"],
                                                       fixed={"calendar_id": "self.calendar_id"}, ret="U")},
         setattrs={("MEV", "recurrence"): ("mev_set_recurrence", "RECL")},
         patterns=[("_error_result(ValueError(f'Failed to fetch master event {_1}: {_2}'))",
                    "(wrs_error_fetch {0} {1})", ["ID", "EXC"], "WRS"),
                   ("_error_result(ValueError(f'Master event {_1} has no recurrence'))", "(wrs_error_norec {0})",
                    ["ID"], "WRS"),
                   ("_error_result(ValueError('Instance must have a start time to add to exdates'))",
                    "wrs_error_nostart", [], "WRS"),
                   ("_error_result(ValueError(f'Failed to update master event: {_1}'))", "(wrs_error_update {0})",
                    ["EXC"], "WRS"),
                   ("not _1.recurrence", "(negb (mev_has_recurrence {0}))", ["MEV"], "B"),
                   ("_1.recurrence[0]", "(mev_line {0})", ["MEV"], "RR"),
                   ("[_1, *_2.recurrence[1:]]", "(mev_recurrence_with {1} {0})", ["RR", "MEV"], "RECL"),
                   ("[WriteResult(success=True, event=_1, error=None)]", "(wrs_success {0})", ["AEV"], "WRS")],
         calls={"_format_exdate": dict(coq="g_gcsa_format_exdate", pre=["tz_utc", "dt_fromtimestamp", "dt_strftime_exdate"],
                                       args=["Z"], ret="EXD"),
                "_parse_exdates_from_rrule": ("parse_exdates_from_rrule", ["RR"], "PARSED"),
                "_add_exdate_to_rrule": dict(coq="g_gcsa_add_exdate_to_rrule",
                                             pre=["parse_exdates_from_rrule", "exd_eqb", "mk_exdate_part", "rr_snoc"],
                                             args=["RR", "EXD"], ret="RR")},
         attrs={("AEV", "start"): ("aev_start", "OZ")}),
    # ---- Calendar.fetch, _add_interval, _add_many, the result ordering of _add_many_batch (R13)
    dict(name="g_gcsa_fetch", file=GCSA, cls="Calendar", func="fetch", kind="expr", ret="L:AEV", gx=True,
         tyvars=["AEV"], types={"AEV": "AEV"},
         params=[("fetch_forward", "option Z -> option Z -> list AEV"), ("fetch_reverse", "option Z -> option Z -> list AEV"),
                 ("start", "OZ"), ("end", "OZ"), ("reverse", "B")],
         calls={"self._fetch_forward": ("fetch_forward", ["OZ", "OZ"], "L:AEV"),
                "self._fetch_reverse": ("fetch_reverse", ["OZ", "OZ"], "L:AEV")}),
    dict(name="g_gcsa_add_interval", file=GCSA, cls="Calendar", func="_add_interval", kind="expr", ret="WRS", gx=True,
         decorators_ok=["_handle_write_errors"],
         tyvars=["TZ", "IVLX", "MD", "PW", "GEV", "CREATED", "ID", "AEV", "CID", "CSUM", "WRS"],
         types={k: k for k in ["TZ", "IVLX", "MD", "PW", "GEV", "CREATED", "ID", "AEV", "CID", "CSUM", "WRS"]},
         params=[("prepare_event_for_add", "IVLX -> CID -> CSUM -> option TZ -> PW"), ("pw_is_write_result", "PW -> bool"),
                 ("wrs_of_pw", "PW -> WRS"), ("build_gcsa_event", "PW -> GEV"), ("add_event", "GEV -> CREATED"),
                 ("created_has_id", "CREATED -> bool"), ("created_id", "CREATED -> ID"), ("wrs_no_id", "WRS"),
                 ("build_result_event", "PW -> ID -> AEV"), ("wrs_success", "AEV -> WRS"),
                 ("self_calendar_id", "CID"), ("self_calendar_summary", "CSUM"), ("self_calendar_timezone", "O:TZ"),
                 ("interval", "IVLX"), ("metadata", "MD")],
         selfattrs={"calendar_id": ("self_calendar_id", "CID"), "calendar_summary": ("self_calendar_summary", "CSUM"),
                    "_calendar_timezone": ("self_calendar_timezone", "O:TZ")},
         patterns=[("isinstance(_1, WriteResult)", "(pw_is_write_result {0})", ["PW"], "B"),
                   ("[_1]", "(wrs_of_pw {0})", ["PW"], "WRS"),
                   ("not _1.id", "(negb (created_has_id {0}))", ["CREATED"], "B"),
                   ("_error_result(ValueError('Google Calendar did not return an event ID'))", "wrs_no_id", [], "WRS"),
                   ("[WriteResult(success=True, event=_1, error=None)]", "(wrs_success {0})", ["AEV"], "WRS")],
         calls={"_prepare_event_for_add": ("prepare_event_for_add", ["IVLX", "CID", "CSUM", "O:TZ"], "PW"),
                "_build_gcsa_event": ("build_gcsa_event", ["PW"], "GEV"),
                "self.calendar.add_event": dict(coq="add_event", args=["GEV"], fixed={"calendar_id": "self.calendar_id"},
                                                ret="CREATED"),
                "_build_result_event": ("build_result_event", ["PW", "ID"], "AEV")},
         attrs={("CREATED", "id"): ("created_id", "ID")}),
    dict(name="g_gcsa_add_many", file=GCSA, cls="Calendar", func="_add_many", kind="expr", ret="L:WR", res=True, gx=True,
         tyvars=["IVLX", "MD", "WR", "EXC"], types={k: k for k in ["IVLX", "MD", "WR", "EXC"]},
         params=[("add_many_batch", "list IVLX -> list WR + EXC"), ("wr_error", "EXC -> WR"),
                 ("intervals", "L:IVLX"), ("metadata", "MD")],
         try_calls={"self._add_many_batch": dict(coq="add_many_batch", args=["L:IVLX"], ret="L:WR")},
         patterns=[("WriteResult(success=False, event=None, error=_1)", "(wr_error {0})", ["EXC"], "WR")]),
    # only the final statement of _add_many_batch (the order in which the results are returned); `results`
    # is whatever the dictionary holds at that point: a parameter
    dict(name="g_gcsa_add_many_batch_results", file=GCSA, cls="Calendar", func="_add_many_batch", kind="expr",
         ret="L:WR", gx=True, tail=dict(stmts=1, free=["results"]),
         tyvars=["IVLX", "RESD", "WR"], types={k: k for k in ["IVLX", "RESD", "WR"]},
         params=[("results_get_or_missing", "RESD -> Z -> WR"), ("results", "RESD"), ("events_list", "L:IVLX")],
         patterns=[("_1.get(str(_2), WriteResult(success=False, event=None, error=ValueError('Missing')))",
                    "(results_get_or_missing {0} {1})", ["RESD", "Z"], "WR")]),
]
