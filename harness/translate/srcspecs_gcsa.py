"""Tie C, third extension (tag gcsa): the functions of calgebra/gcsa.py that are translated, with the typing
information Python does not state.  The translator extension they need is pysrc_gcsa.py (imported here: it
installs itself on pysrc.Tr and is active only for specs with gx=True).

Every generated definition is PARAMETRIC in the datetime / zoneinfo / gcsa objects it touches: they are
abstract types (tyvars) and the library operations on them are function parameters.  Proofs/GenEq_gcsa*.v
instantiate them with the zone model (Model/Zone.v) and the simulated backend's data (Model/Gcsa.v) and prove
the instance equal to the hand-written model function; the instantiation is visible in each theorem statement.

TRUSTED readings (what the equivalence theorems take for granted about Python and the libraries):
  R1  `datetime.fromtimestamp(t, tz=z)`, `x.time()`, `time.min`, `timedelta(seconds= / days= / hours=)`,
      `td.days`, `td - td`, `td > td`, `x != y` on times: total, side-effect-free operations; each is a
      parameter.  The instantiation used by the theorems: a datetime is (wall-clock seconds, fold) in the
      zone model, x.time() is its second of day, time.min is 0, a timedelta is a number of seconds,
      timedelta(seconds=s).days = floor(s / 86400)  (timedelta normalises to 0 <= seconds < 86400).
  R2  `timezone.utc` is a fixed zone object (parameter tz_utc; instantiated with the zone model's UTC).
  R3  An Optional[T] of a declared abstract type is Coq's option; `x is None`, `x is not None` are the
      constructor tests.
  R4  (_fetch_reverse) `self._fetch_forward(a, b)` is a PURE function of its two bounds returning the list of
      what the generator yields (parameter fetch_forward); `ev.start` of a fetched Event is an int
      (parameter ev_start : it is built by `start=_to_timestamp(..)`).  A generator = the list of its yields;
      `yield from reversed(l)` appends rev l.  The `while` is fuelled (RFuel when the fuel runs out).
  R5  (_format_exdate) `dt.strftime(_EXDATE_FORMAT)` is a parameter; the module must say
      `_EXDATE_FORMAT = '%Y%m%dT%H%M%SZ'` and `_timestamp_to_datetime` is translated too (g_gcsa_ts_to_dt:
      `datetime.fromtimestamp(ts, tz=timezone.utc)`).  Instantiation: the UTC civil fields of the instant
      (Model/Gcsa.v format_exdate).
  R6  (_add_exdate_to_rrule) strings are read through the model's tokens: an RRULE line is a list of
      ';'-separated parts (abstract type RR), `_parse_exdates_from_rrule` is a parameter returning
      (line without EXDATE parts, list of EXDATE strings);  `'EXDATE:' + ','.join(l)` is the part
      `mk_exdate_part l`;  f'{a};{b}' appends the part b to the line a (rr_snoc);  `x not in l` on a list of
      strings is existsb with string equality (parameter exd_eqb), negated;  l.append(x) is l ++ [x].
"""
from . import pysrc_gcsa  # noqa: F401  (installs the gx extension on pysrc.Tr)

GCSA = "calgebra/gcsa.py"
DT_IMPORT = "from datetime import date, datetime, time, timedelta, timezone"

# the datetime library as parameters (R1, R2)
DT_TYVARS = ["TZ", "DT", "TIME", "TD"]
DT_TYPES = {"TZ": "TZ", "DT": "DT", "TIME": "TIME", "TD": "TD"}

SPECS_GCSA = [
    # ---- _infer_is_all_day
    dict(name="g_gcsa_infer_is_all_day", file=GCSA, func="_infer_is_all_day", kind="expr", ret="B", gx=True,
         file_has=[DT_IMPORT], tyvars=DT_TYVARS, types=DT_TYPES,
         params=[("tz_utc", "TZ"), ("dt_fromtimestamp", "Z -> TZ -> DT"), ("dt_time", "DT -> TIME"),
                 ("time_min", "TIME"), ("time_neb", "TIME -> TIME -> bool"),
                 ("td_of_seconds", "Z -> TD"), ("td_of_days", "Z -> TD"), ("td_of_hours", "Z -> TD"),
                 ("td_days", "TD -> Z"), ("td_sub", "TD -> TD -> TD"), ("td_gtb", "TD -> TD -> bool"),
                 ("start_ts", "Z"), ("end_ts", "Z"), ("calendar_tz", "O:TZ")],
         text_exprs={"timezone.utc": ("tz_utc", "TZ"), "time.min": ("time_min", "TIME")},
         calls={"datetime.fromtimestamp": dict(coq="dt_fromtimestamp", args=["Z"], kw=[("tz", "TZ")], ret="DT"),
                "timedelta": [dict(coq="td_of_seconds", args=[], kw=[("seconds", "Z")], ret="TD"),
                              dict(coq="td_of_days", args=[], kw=[("days", "Z")], ret="TD"),
                              dict(coq="td_of_hours", args=[], kw=[("hours", "Z")], ret="TD")]},
         methods={("DT", "time"): dict(coq="dt_time", args=[], ret="TIME")},
         attrs={("TD", "days"): ("td_days", "Z")},
         binops={("TD", "-", "TD"): ("td_sub", "TD")},
         cmpops={("TIME", "!=", "TIME"): "time_neb", ("TD", ">", "TD"): "td_gtb"}),
    # ---- Calendar._fetch_reverse: the 30-day window loop (R4)
    dict(name="g_gcsa_fetch_reverse", file=GCSA, cls="Calendar", func="_fetch_reverse", kind="gen", res=True,
         gx=True, tyvars=["EV"], types={"EV": "EV"}, out_type="EV", yield_type="EV",
         params=[("fetch_forward", "option Z -> option Z -> list EV"), ("ev_start", "EV -> Z"),
                 ("start", "OZ"), ("end", "OZ")],
         calls={"self._fetch_forward": ("fetch_forward", ["OZ", "OZ"], "L:EV")},
         attrs={("EV", "start"): ("ev_start", "Z")}),
    # ---- _timestamp_to_datetime, _format_exdate (R5)
    dict(name="g_gcsa_ts_to_dt", file=GCSA, func="_timestamp_to_datetime", kind="expr", ret="DT", gx=True,
         file_has=[DT_IMPORT], tyvars=["TZ", "DT"], types={"TZ": "TZ", "DT": "DT"},
         params=[("tz_utc", "TZ"), ("dt_fromtimestamp", "Z -> TZ -> DT"), ("ts", "Z")],
         text_exprs={"timezone.utc": ("tz_utc", "TZ")},
         calls={"datetime.fromtimestamp": dict(coq="dt_fromtimestamp", args=["Z"], kw=[("tz", "TZ")], ret="DT")}),
    dict(name="g_gcsa_format_exdate", file=GCSA, func="_format_exdate", kind="expr", ret="EXD", gx=True,
         file_has=[DT_IMPORT, "_EXDATE_FORMAT = '%Y%m%dT%H%M%SZ'"],
         tyvars=["TZ", "DT", "EXD"], types={"TZ": "TZ", "DT": "DT", "EXD": "EXD"},
         params=[("tz_utc", "TZ"), ("dt_fromtimestamp", "Z -> TZ -> DT"), ("dt_strftime_exdate", "DT -> EXD"),
                 ("timestamp", "Z")],
         calls={"_timestamp_to_datetime": dict(coq="g_gcsa_ts_to_dt", pre=["tz_utc", "dt_fromtimestamp"],
                                               args=["Z"], ret="DT")},
         patterns=[("_1.strftime(_EXDATE_FORMAT)", "(dt_strftime_exdate {0})", ["DT"], "EXD")]),
    # ---- _add_exdate_to_rrule (R6)
    dict(name="g_gcsa_add_exdate_to_rrule", file=GCSA, func="_add_exdate_to_rrule", kind="expr", ret="RR", gx=True,
         tyvars=["RR", "EXD", "PART"], types={"RR": "RR", "EXD": "EXD", "PART": "PART", "PARSED": "(RR * list EXD)"},
         tuples={"PARSED": ["RR", "L:EXD"]}, eqbs={"EXD": "exd_eqb"},
         params=[("parse_exdates_from_rrule", "RR -> RR * list EXD"), ("exd_eqb", "EXD -> EXD -> bool"),
                 ("mk_exdate_part", "list EXD -> PART"), ("rr_snoc", "RR -> PART -> RR"),
                 ("rrule_str", "RR"), ("exdate_str", "EXD")],
         calls={"_parse_exdates_from_rrule": ("parse_exdates_from_rrule", ["RR"], "PARSED")},
         patterns=[("'EXDATE:' + ','.join(_1)", "(mk_exdate_part {0})", ["L:EXD"], "PART"),
                   ("f'{_1};{_2}'", "(rr_snoc {0} {1})", ["RR", "PART"], "RR")]),
]
