"""Tie C, third extension (tag ical): what the translator needs for calgebra/ical.py.

This module EXTENDS harness/translate/pysrc.py without editing it, in the manner of pysrc_gcsa.py: it registers
one function hook and wraps Tr.block (on top of the gcsa wrapper, which the ical specs also use: gx=True gives
them patterns with typed holes, Optionals of declared types and `truthy` types).  Nothing here acts unless the
spec being translated carries spec["ical_ext"]; every other translation is byte-for-byte what it was.
FAIL-CLOSED like the rest: a construct is accepted only in the shapes described; anything else falls through to
pysrc, which raises Unsupported for what it does not know.

spec["ical_ext"] keys (all optional):

  slice      dict(first=<prefix>, last=<prefix>, inputs=[names], outs=[names])
             Only the run of consecutive TOP-LEVEL statements of the function from the one whose first source
             line starts with `first` to the one whose first line starts with `last` (each prefix must match
             exactly one top-level statement) is translated, as a function of its own: its Python parameters are
             `inputs` (typed by the spec's params), its result the tuple of `outs` (a single name: that
             value).  Checked on the source, on every run:
               * every input the slice reads is a parameter of the Python function or is assigned by a top-level
                 statement BEFORE the slice (so "the value it holds on entry" exists);
               * every name the slice assigns that a LATER statement of the function reads (nested functions
                 included) is among `outs` — the slice hands on everything the rest of the function takes from it;
               * every out is assigned in the slice; the slice contains no def / lambda / class / global /
                 nonlocal / walrus and no return / yield (control leaves it only at its end or by raise).
  skip_bare_annotations
             True: a statement `x: T` (annotation without a value) is dropped (no run-time effect on a local).
  nojoin     [exact source text of `if` tests]: such an `if` is translated by the older scheme (the rest of the
             block is duplicated into both branches) even when its branches only assign.  Same meaning, another
             shape of generated term; needed where the two branches leave a variable at DIFFERENT types
             (pattern_start: a datetime or an int) which the following `return` injects into a declared sum
             (spec["injections"]).
  and_split  True: `if c1 and c2 and ..: A else: B` where some conjunct is an Optional of a truthy declared type
             (a NAME, or `not NAME`) is read as `if c1: (if c2 and ..: A else: B) else: B` — Python's `and`
             evaluates left to right and stops at the first falsy conjunct; the conjuncts accepted here are pure
             (the translator's expressions have no effects and the abstracted operations are total), so the nested
             form takes the same branch.  Inside the branch where NAME is truthy it is rebound at its underlying
             type (gcsa's Optional reading).
  adds       [receiver names]: an object that only collects properties.  Every statement `ev.add('key', e)` (two
             positional arguments, the first a string literal, no keywords) is rewritten, before translation, into
             `ev = __ical_add__(ev, 'key', e)`, which the spec reads through a pattern per key literal
             (`__ical_add__(_1, 'dtstart', _2)` -> the parameter ev_add_dtstart): the object after the call is a
             function of the object before and the value.  Checked on the source: ev is a local, not a parameter;
             every other mention of ev is `ev = <call without arguments>` (its creation, read through text_exprs)
             or `return ev` — so no second name for the object exists and nothing else sees it.
  append_loops
             True: a `for V in E: L.append(X)` (the whole body is that one statement; V a plain name used by this
             loop only; L a plain name that X and E do not mention) that stands directly inside another `for`
             is rewritten, before translation, into `L.extend([X for V in E])`: the same items appended in the
             same order (X and E are pure in the translator's subset).
  total_try  [exact source text of a statement]: `try: <that statement> except Exception: pass` is read as the
             statement (the spec's reading of its right-hand side is total: it never raises).
  unroll_pairs
             True: `for a, b in [(k1, v1), (k2, v2), ..]:` over a LIST LITERAL of pairs of constants is the body
             repeated once per pair, in order, with the two names replaced by the constants (the names must not
             be assigned in the body nor read after the loop; no break / continue / else).
"""
from __future__ import annotations

import ast
import copy

from . import pysrc
from . import pysrc_gcsa
from .pysrc import Unsupported, cname


def ix(tr):
    return tr.spec.get("ical_ext") or {}


# ------------------------------------------------------------------------------------------------ slices
def top_statements(fdef):
    return [x for x in fdef.body
            if not (isinstance(x, ast.Expr) and isinstance(x.value, ast.Constant) and isinstance(x.value.value, str))]


def locate(top, prefix):
    hits = [i for i, x in enumerate(top) if ast.unparse(x).split("\n")[0].startswith(prefix)]
    if len(hits) != 1:
        raise Unsupported(f"slice boundary `{prefix}` matches {len(hits)} top-level statements")
    return hits[0]


def stored_names(nodes):
    out = set()
    for n in nodes:
        for x in ast.walk(n):
            if isinstance(x, ast.Name) and isinstance(x.ctx, (ast.Store, ast.Del)):
                out.add(x.id)
            elif isinstance(x, (ast.FunctionDef, ast.AsyncFunctionDef, ast.ClassDef)):
                out.add(x.name)
            elif isinstance(x, ast.ExceptHandler) and x.name:
                out.add(x.name)
            elif isinstance(x, (ast.Import, ast.ImportFrom)):
                out |= {(a.asname or a.name.split(".")[0]) for a in x.names}
    return out


def loaded_names(nodes):
    return {x.id for n in nodes for x in ast.walk(n) if isinstance(x, ast.Name) and isinstance(x.ctx, ast.Load)}


def occurrences(fn, names):
    """how many Name nodes of the function's own scope mention one of the names; a nested function that binds the
    name itself (a parameter or an assignment: its own local) is not counted, one that only reads it is"""
    n = 0

    def walk(node, top):
        nonlocal n
        for ch in ast.iter_child_nodes(node):
            if isinstance(ch, (ast.FunctionDef, ast.AsyncFunctionDef, ast.Lambda)):
                own = set(python_params(ch)) if not isinstance(ch, ast.Lambda) else {a.arg for a in ch.args.args}
                if not isinstance(ch, ast.Lambda):
                    own |= stored_names(ch.body)
                if own & set(names):
                    if own >= set(names):
                        continue
                    raise Unsupported("a nested function binds only some of the names")
                walk(ch, False)
            else:
                if isinstance(ch, ast.Name) and ch.id in names:
                    n += 1
                walk(ch, top)
    walk(fn, True)
    return n


def python_params(fdef):
    a = fdef.args
    return [x.arg for x in a.posonlyargs + a.args + a.kwonlyargs] + [x.arg for x in (a.vararg, a.kwarg) if x is not None]


def slice_function(tr, fdef):
    sl = ix(tr)["slice"]
    top = top_statements(fdef)
    i, j = locate(top, sl["first"]), locate(top, sl["last"])
    if j < i:
        raise Unsupported("slice: the last statement comes before the first")
    body = [copy.deepcopy(x) for x in top[i:j + 1]]
    for n in body:
        for x in ast.walk(n):
            if isinstance(x, (ast.FunctionDef, ast.AsyncFunctionDef, ast.Lambda, ast.ClassDef, ast.Global, ast.Nonlocal,
                              ast.NamedExpr, ast.Return, ast.Yield, ast.YieldFrom, ast.Await)):
                raise Unsupported(f"{type(x).__name__} inside a slice")
    for x in ast.walk(fdef):
        if isinstance(x, (ast.Global, ast.Nonlocal)):
            raise Unsupported("global / nonlocal in a function translated by slices")
    assigned = stored_names(body)
    before = stored_names(top[:i]) | set(python_params(fdef))
    outs = list(sl["outs"])
    if not outs or len(set(outs)) != len(outs):
        raise Unsupported("slice: outs")
    for x in outs:
        if x not in assigned:
            raise Unsupported(f"slice: the output {x} is not assigned in the slice")
    later = loaded_names(top[j + 1:])
    for x in sorted(assigned & later):
        if x not in outs:
            raise Unsupported(f"slice: {x} is assigned in the slice and read after it, but is not an output")
    names = list(sl["inputs"])
    typed = {n for n, t in tr.spec["params"] if tr.is_type(t)}
    reads = loaded_names(body)
    for x in names:
        if x not in typed:
            raise Unsupported(f"slice: the input {x} is not a typed parameter of the spec")
        if x not in before:
            raise Unsupported(f"slice: the input {x} is not bound before the slice")
        if x not in reads:
            raise Unsupported(f"slice: the input {x} is not read by the slice")
    val = ast.Name(id=outs[0], ctx=ast.Load()) if len(outs) == 1 else \
        ast.Tuple(elts=[ast.Name(id=n, ctx=ast.Load()) for n in outs], ctx=ast.Load())
    body.append(ast.Return(value=val))
    new = ast.FunctionDef(name=fdef.name, args=ast.arguments(posonlyargs=[], args=[ast.arg(arg=n) for n in names],
                                                             kwonlyargs=[], kw_defaults=[], defaults=[]),
                          body=body, decorator_list=[], returns=None, type_comment=None, type_params=[])
    return ast.fix_missing_locations(new)


class _AddRewrite(ast.NodeTransformer):
    def __init__(self, names):
        self.names = names

    def visit_Expr(self, node):
        c = node.value
        if isinstance(c, ast.Call) and isinstance(c.func, ast.Attribute) and c.func.attr == "add" \
                and isinstance(c.func.value, ast.Name) and c.func.value.id in self.names:
            if c.keywords or len(c.args) != 2 or not (isinstance(c.args[0], ast.Constant) and
                                                      isinstance(c.args[0].value, str)):
                raise Unsupported(f"statement {ast.unparse(node)[:60]}")
            v = c.func.value.id
            return ast.copy_location(ast.Assign(
                targets=[ast.Name(id=v, ctx=ast.Store())],
                value=ast.Call(func=ast.Name(id="__ical_add__", ctx=ast.Load()),
                               args=[ast.Name(id=v, ctx=ast.Load()), c.args[0], c.args[1]], keywords=[])), node)
        return node


def rewrite_adds(tr, fdef, whole):
    """whole: the complete Python function (for the checks); fdef: what is translated (a copy is returned)"""
    names = set(ix(tr)["adds"])
    for x in ast.walk(whole):
        if isinstance(x, ast.Name) and x.id == "__ical_add__":
            raise Unsupported("the function uses the name __ical_add__")
    if names & set(python_params(whole)):
        raise Unsupported("adds: the receiver is a parameter")
    # every mention of a receiver: `v.add(lit, e)` as a statement, `v = f()` or `return v`
    ok = set()
    for x in ast.walk(whole):
        if isinstance(x, ast.Expr) and isinstance(x.value, ast.Call) and isinstance(x.value.func, ast.Attribute) \
                and x.value.func.attr == "add" and isinstance(x.value.func.value, ast.Name) \
                and x.value.func.value.id in names:
            ok.add(id(x.value.func.value))
        elif isinstance(x, ast.Assign) and len(x.targets) == 1 and isinstance(x.targets[0], ast.Name) \
                and x.targets[0].id in names and isinstance(x.value, ast.Call) and not x.value.args \
                and not x.value.keywords:
            ok.add(id(x.targets[0]))
        elif isinstance(x, ast.Return) and isinstance(x.value, ast.Name) and x.value.id in names:
            ok.add(id(x.value))
    for x in ast.walk(whole):
        if isinstance(x, ast.Name) and x.id in names and id(x) not in ok:
            raise Unsupported(f"adds: another use of {x.id}")
        if isinstance(x, (ast.FunctionDef, ast.Lambda)) and x is not whole and names & loaded_names([x]):
            raise Unsupported("adds: the receiver is used in a nested function")
    return ast.fix_missing_locations(_AddRewrite(names).visit(copy.deepcopy(fdef)))


class _UnrollPairs(ast.NodeTransformer):
    """for a, b in [(k1, v1), ..]: BODY  ->  BODY[a := k1, b := v1]; ..   (see the module docstring)"""
    def __init__(self, whole):
        self.whole = whole

    def visit_For(self, s):
        self.generic_visit(s)
        if not (isinstance(s.iter, ast.List) and s.iter.elts and isinstance(s.target, ast.Tuple)
                and len(s.target.elts) == 2 and all(isinstance(t, ast.Name) for t in s.target.elts)
                and all(isinstance(p, ast.Tuple) and len(p.elts) == 2 and all(isinstance(c, ast.Constant) for c in p.elts)
                        for p in s.iter.elts)):
            return s
        a, b = (t.id for t in s.target.elts)
        if a == b or s.orelse:
            raise Unsupported("loop over a literal list of pairs: shape")
        for n in s.body:
            for sub in ast.walk(n):
                if isinstance(sub, (ast.Break, ast.Continue, ast.Return, ast.Yield, ast.YieldFrom, ast.For, ast.While,
                                    ast.FunctionDef, ast.Lambda, ast.Try)):
                    raise Unsupported(f"{type(sub).__name__} in a loop over a literal list of pairs")
        # the two names are used by this loop only (nothing reads their final values)
        inside = sum(1 for x in ast.walk(s) if isinstance(x, ast.Name) and x.id in (a, b))
        everywhere = sum(1 for x in ast.walk(self.whole) if isinstance(x, ast.Name) and x.id in (a, b))
        if inside != everywhere or {a, b} & set(python_params(self.whole)):
            raise Unsupported("the loop variables of an unrolled loop are visible outside it")
        out = []
        for p in s.iter.elts:
            sub = _Subst({a: p.elts[0], b: p.elts[1]})
            out += [sub.visit(copy.deepcopy(n)) for n in s.body]
        return out


class _AppendLoops(ast.NodeTransformer):
    def __init__(self, whole):
        self.whole = whole
        self.depth = 0

    def visit_For(self, s):
        self.depth += 1
        try:
            self.generic_visit(s)
        finally:
            self.depth -= 1
        if self.depth == 0 or s.orelse or len(s.body) != 1 or not isinstance(s.target, ast.Name):
            return s
        b = s.body[0]
        if not (isinstance(b, ast.Expr) and isinstance(b.value, ast.Call) and isinstance(b.value.func, ast.Attribute)
                and b.value.func.attr == "append" and isinstance(b.value.func.value, ast.Name)
                and len(b.value.args) == 1 and not b.value.keywords):
            return s
        v, lst, item = s.target.id, b.value.func.value.id, b.value.args[0]
        inside = sum(1 for x in ast.walk(s) if isinstance(x, ast.Name) and x.id == v)
        everywhere = occurrences(self.whole, [v])
        if inside != everywhere or v in python_params(self.whole) or v == lst \
                or lst in loaded_names([item, s.iter]):
            return s
        comp = ast.ListComp(elt=item, generators=[ast.comprehension(target=ast.Name(id=v, ctx=ast.Store()), iter=s.iter,
                                                                     ifs=[], is_async=0)])
        return ast.copy_location(ast.Expr(value=ast.Call(
            func=ast.Attribute(value=ast.Name(id=lst, ctx=ast.Load()), attr="extend", ctx=ast.Load()),
            args=[comp], keywords=[])), s)


def func_hook(tr, fdef):
    whole = fdef
    if ix(tr).get("slice"):
        fdef = slice_function(tr, fdef)
    if ix(tr).get("unroll_pairs"):
        fdef = ast.fix_missing_locations(_UnrollPairs(fdef).visit(copy.deepcopy(fdef)))
        if not ix(tr).get("slice"):
            whole = fdef
    if ix(tr).get("append_loops"):
        fdef = ast.fix_missing_locations(_AppendLoops(whole).visit(copy.deepcopy(fdef)))
    if ix(tr).get("adds"):
        fdef = rewrite_adds(tr, fdef, whole)
    return fdef


# ------------------------------------------------------------------------------------------------ statements
class _Subst(ast.NodeTransformer):
    def __init__(self, mapping):
        self.mapping = mapping

    def visit_Name(self, node):
        if node.id in self.mapping:
            if not isinstance(node.ctx, ast.Load):
                raise Unsupported(f"the loop variable {node.id} is assigned in the loop body")
            return ast.copy_location(copy.deepcopy(self.mapping[node.id]), node)
        return node


def and_split(tr, s, env):
    """`if c1 and REST: A else: B` -> `if c1: (if REST: A else: B) else: B` when a conjunct tests an Optional"""
    t = s.test
    if not (isinstance(t, ast.BoolOp) and isinstance(t.op, ast.And) and len(t.values) >= 2):
        return None
    if not any(pysrc_gcsa.gx_opt_subject(tr, v, env) is not None and
               isinstance(pysrc_gcsa.gx_opt_subject(tr, v, env)[0], ast.Name) for v in t.values):
        return None
    rest_test = t.values[1] if len(t.values) == 2 else ast.BoolOp(op=ast.And(), values=list(t.values[1:]))
    inner = ast.If(test=rest_test, body=copy.deepcopy(s.body), orelse=copy.deepcopy(s.orelse))
    outer = ast.If(test=t.values[0], body=[inner], orelse=copy.deepcopy(s.orelse))
    return ast.fix_missing_locations(ast.copy_location(outer, s))


def ical_stmt(tr, s, rest, env, fin, ind):
    x = ix(tr)
    pad = "  " * ind
    if x.get("skip_bare_annotations") and isinstance(s, ast.AnnAssign) and s.value is None \
            and isinstance(s.target, ast.Name) and s.simple:
        return tr.block(rest, env, fin, ind)
    if isinstance(s, ast.If) and x.get("and_split"):
        s2 = and_split(tr, s, env)
        if s2 is not None:
            return tr.block([s2] + rest, env, fin, ind)
    if isinstance(s, ast.If) and ast.unparse(s.test) in x.get("nojoin", []):
        if tr.loop_depth:
            raise Unsupported("nojoin inside a loop")
        c, _ = tr.expr(s.test, env, "B")
        a = tr.block(list(s.body) + rest, env, fin, ind + 1)
        b = tr.block(list(s.orelse) + rest, env, fin, ind + 1)
        return f"{pad}if {c} then\n{a}\n{pad}else\n{b}"
    if isinstance(s, ast.Try) and x.get("total_try"):
        h = s.handlers
        if len(s.body) == 1 and ast.unparse(s.body[0]) in x["total_try"] and not s.orelse and not s.finalbody \
                and len(h) == 1 and isinstance(h[0].type, ast.Name) and h[0].type.id == "Exception" \
                and h[0].name is None and len(h[0].body) == 1 and isinstance(h[0].body[0], ast.Pass) \
                and "Exception" not in env:
            return tr.block([s.body[0]] + rest, env, fin, ind)
    return None


# ------------------------------------------------------------------------------------------------ wrapping
_prev_block = pysrc.Tr.block
_prev_bind = pysrc.Tr.bind


def _bind(self, env, name, ty):
    """(ical specs only) a sum-typed name whose constructor is known and that is re-assigned at a type that is
    not a sum: forget the constructor (pysrc.bind does so only when the new type is a sum again)"""
    env = _prev_bind(self, env, name, ty)
    if ix(self) and name in env.get("$ctor", {}) and ty not in self.sums:
        env = dict(env)
        env["$ctor"] = {k: v for k, v in env["$ctor"].items() if k != name}
    return env



def _block(self, stmts, env, fin, ind):
    if ix(self) and stmts:
        r = ical_stmt(self, stmts[0], list(stmts[1:]), env, fin, ind)
        if r is not None:
            return r
    return _prev_block(self, stmts, env, fin, ind)


if getattr(pysrc.Tr, "_ical_installed", False) is False:
    pysrc.Tr.block = _block
    pysrc.Tr.bind = _bind
    pysrc.REC_FUNC_HOOKS.append(func_hook)
    pysrc.Tr._ical_installed = True
