"""Which functions of calgebra the source translator (tie C) turns into Gallina, with the typing
information Python does not state.  name = the generated Coq definition (coq/Gen/Source.v)."""
from pathlib import Path

from . import pysrc

FETCH_T = "option Z -> option Z -> bool -> list ivl"

SPECS = [
    dict(name="g_finite_start", file="calgebra/interval.py", cls="Interval", func="finite_start", kind="expr",
         params=[("self", "IVL")], ret="Z"),
    dict(name="g_finite_end", file="calgebra/interval.py", cls="Interval", func="finite_end", kind="expr",
         params=[("self", "IVL")], ret="Z"),
    dict(name="g_neg", file="calgebra/core.py", func="_neg", kind="expr", params=[("val", "OZ")], ret="OZ"),
    dict(name="g_negate_interval", file="calgebra/core.py", func="_negate_interval", kind="expr",
         params=[("ivl", "IVL")], ret="IVL"),
    dict(name="g_negate_stream", file="calgebra/core.py", func="_negate_stream", kind="expr",
         params=[("stream", "LIST")], ret="LIST"),
    dict(name="g_solid_fetch", file="calgebra/core.py", cls="_SolidTimeline", func="fetch", kind="gen",
         params=[("start", "OZ"), ("end", "OZ"), ("reverse", "B")]),
    dict(name="g_compl_sweep", file="calgebra/core.py", cls="Complement", func="_sweep", kind="gen",
         params=[("source_stream", "LIST"), ("start", "OZ"), ("end", "OZ")]),
    dict(name="g_compl_fetch", file="calgebra/core.py", cls="Complement", func="fetch", kind="expr",
         params=[("source_fetch", FETCH_T), ("start", "OZ"), ("end", "OZ"), ("reverse", "B")], ret="LIST",
         calls={"self.source.fetch": ("source_fetch", ["OZ", "OZ", "B"], "LIST"),
                "self._sweep": ("g_compl_sweep", ["LIST", "OZ", "OZ"], "LIST")}),
    dict(name="g_filtered_fetch", file="calgebra/core.py", cls="Filtered", func="fetch", kind="expr",
         params=[("source_fetch", FETCH_T), ("filter_apply", "ivl -> bool"),
                 ("start", "OZ"), ("end", "OZ"), ("reverse", "B")], ret="LIST",
         calls={"self.source.fetch": ("source_fetch", ["OZ", "OZ", "B"], "LIST"),
                "self.filter.apply": ("filter_apply", ["IVL"], "B")}),
    dict(name="g_buffered_fetch", file="calgebra/transform.py", cls="_Buffered", func="fetch", kind="gen",
         params=[("source_fetch", FETCH_T), ("self_before", "Z"), ("self_after", "Z"),
                 ("start", "OZ"), ("end", "OZ"), ("reverse", "B")],
         selfattrs={"before": ("self_before", "Z"), "after": ("self_after", "Z")},
         calls={"self.source.fetch": ("source_fetch", ["OZ", "OZ", "B"], "LIST")}),
    dict(name="g_merged_fetch_forward", file="calgebra/transform.py", cls="_MergedWithin", func="_fetch_forward",
         kind="gen",
         params=[("source_fetch", FETCH_T), ("self_gap", "Z"), ("start", "OZ"), ("end", "OZ")],
         selfattrs={"gap": ("self_gap", "Z")},
         calls={"self.source.fetch": ("source_fetch", ["OZ", "OZ", "B"], "LIST")}),
]


def regenerate(repo: Path, coq_dir: Path):
    """Rewrite Gen/Source.v if its content changed.  Returns ({name: error}, text)."""
    text, errors = pysrc.translate_all(repo, SPECS)
    out = coq_dir / "Gen" / "Source.v"
    if not out.exists() or out.read_text() != text:
        out.write_text(text)
    return errors, text
