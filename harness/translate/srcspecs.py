"""Which functions of calgebra the source translator (tie C) turns into Gallina, with the typing
information Python does not state.  name = the generated Coq definition (coq/Gen/Source.v)."""
from pathlib import Path

from . import pysrc

FETCH_T = "option Z -> option Z -> bool -> list ivl"

# Gen/Source.v may mention the models' data types and library models (freq, zmem, sl_add, ...)
HEADER = pysrc.HEADER.replace("From CG Require Import Model.Loop.",
                              "From CG Require Import Model.Loop Model.Recur Model.Cache.")

# self.freq is one of four strings: an enumeration (Model/Recur.v)
FREQ = {"FREQ": ("freq_eqb", {"daily": "Daily", "weekly": "Weekly", "monthly": "Monthly", "yearly": "Yearly"})}

SINK_EFFECTS = {"self._sink.add": dict(var="self_sink", args=["IVL"], update="(sl_add {0} {var})"),
                "self._sink.remove": dict(var="self_sink", args=["IVL"], update="(sl_remove {0} {var})")}

HENT0 = "(0, 0%N, mkCov 0 0 0)"          # default heap entry (only where Python would raise IndexError)

SPECS = [
    dict(name="g_finite_start", file="calgebra/interval.py", cls="Interval", func="finite_start", kind="expr",
         params=[("self", "IVL")], ret="Z"),
    dict(name="g_finite_end", file="calgebra/interval.py", cls="Interval", func="finite_end", kind="expr",
         params=[("self", "IVL")], ret="Z"),
    dict(name="g_neg", file="calgebra/core.py", func="_neg", kind="expr", params=[("val", "OZ")], ret="OZ"),
    dict(name="g_negate_interval", file="calgebra/core.py", func="_negate_interval", kind="expr",
         params=[("ivl", "IVL")], ret="IVL"),
    dict(name="g_negate_stream", file="calgebra/core.py", func="_negate_stream", kind="expr",
         params=[("stream", "LIST")], ret="LIST"),
    dict(name="g_solid_fetch", file="calgebra/core.py", cls="_SolidTimeline", func="fetch", kind="gen",
         params=[("start", "OZ"), ("end", "OZ"), ("reverse", "B")]),
    dict(name="g_compl_sweep", file="calgebra/core.py", cls="Complement", func="_sweep", kind="gen",
         params=[("source_stream", "LIST"), ("start", "OZ"), ("end", "OZ")]),
    dict(name="g_compl_fetch", file="calgebra/core.py", cls="Complement", func="fetch", kind="expr",
         params=[("source_fetch", FETCH_T), ("start", "OZ"), ("end", "OZ"), ("reverse", "B")], ret="LIST",
         calls={"self.source.fetch": ("source_fetch", ["OZ", "OZ", "B"], "LIST"),
                "self._sweep": ("g_compl_sweep", ["LIST", "OZ", "OZ"], "LIST")}),
    dict(name="g_filtered_fetch", file="calgebra/core.py", cls="Filtered", func="fetch", kind="expr",
         params=[("source_fetch", FETCH_T), ("filter_apply", "ivl -> bool"),
                 ("start", "OZ"), ("end", "OZ"), ("reverse", "B")], ret="LIST",
         calls={"self.source.fetch": ("source_fetch", ["OZ", "OZ", "B"], "LIST"),
                "self.filter.apply": ("filter_apply", ["IVL"], "B")}),
    dict(name="g_buffered_fetch", file="calgebra/transform.py", cls="_Buffered", func="fetch", kind="gen",
         params=[("source_fetch", FETCH_T), ("self_before", "Z"), ("self_after", "Z"),
                 ("start", "OZ"), ("end", "OZ"), ("reverse", "B")],
         selfattrs={"before": ("self_before", "Z"), "after": ("self_after", "Z")},
         calls={"self.source.fetch": ("source_fetch", ["OZ", "OZ", "B"], "LIST")}),
    dict(name="g_merged_fetch_forward", file="calgebra/transform.py", cls="_MergedWithin", func="_fetch_forward",
         kind="gen",
         params=[("source_fetch", FETCH_T), ("self_gap", "Z"), ("start", "OZ"), ("end", "OZ")],
         selfattrs={"gap": ("self_gap", "Z")},
         calls={"self.source.fetch": ("source_fetch", ["OZ", "OZ", "B"], "LIST")}),
    # ---- recurrence.py.  datetime values are an abstract type DT; the library calls (fromtimestamp,
    # rrule, ...) and the other methods are parameters of the generated definition.
    dict(name="g_recur_fetch_forward", file="calgebra/recurrence.py", cls="RecurringPattern", func="_fetch_forward",
         kind="gen", res=True, tyvars=["DT"], types={"DT": "DT", "FREQ": "freq"}, enums=FREQ,
         params=[("self_freq", "FREQ"), ("self_interval", "Z"), ("self_duration_seconds", "Z"),
                 ("self_exdates", "L:Z"),
                 ("dt_fromtimestamp", "Z -> DT"), ("get_safe_anchor", "DT -> DT"), ("dt_midnight", "DT -> DT"),
                 ("rrule_of", "DT -> list DT"), ("occurrence_to_interval", "DT -> ivl"),
                 ("start", "OZ"), ("end", "OZ")],
         selfattrs={"freq": ("self_freq", "FREQ"), "interval": ("self_interval", "Z"),
                    "duration_seconds": ("self_duration_seconds", "Z"), "exdates": ("self_exdates", "L:Z")},
         calls={"datetime.fromtimestamp": dict(coq="dt_fromtimestamp", args=["Z"], fixed={"tz": "self.zone"}, ret="DT"),
                "self._get_safe_anchor": ("get_safe_anchor", ["DT"], "DT"),
                "rrule": dict(coq="rrule_of", args=[], kw=[("dtstart", "DT")], fixed={"**": "self.rrule_kwargs"},
                              ret="L:DT"),
                "self._occurrence_to_interval": ("occurrence_to_interval", ["DT"], "IVL")},
         methods={("DT", "replace"): dict(coq="dt_midnight", args=[],
                                          fixed={"hour": "0", "minute": "0", "second": "0", "microsecond": "0"},
                                          ret="DT")}),
    # the forward fetch of a chunk is a parameter; its items have integer starts (assumption carried by
    # the equivalence theorem: true of everything _occurrence_to_interval builds)
    dict(name="g_recur_fetch_reverse", file="calgebra/recurrence.py", cls="RecurringPattern", func="_fetch_reverse",
         kind="gen", res=True, types={"FREQ": "freq"}, enums=FREQ,
         params=[("self_freq", "FREQ"), ("fetch_forward", "Z -> Z -> list ivl"), ("start", "OZ"), ("end", "OZ")],
         selfattrs={"freq": ("self_freq", "FREQ")},
         calls={"self._fetch_forward": ("fetch_forward", ["Z", "Z"], "LIST")},
         assume_not_none=["ivl.start"]),
    # datetime / date / timedelta are abstract types; the arithmetic between them is a parameter.
    # base_anchor.replace(year=.., month=..) raises ValueError when the day does not exist in that month:
    # its Coq form returns an option and is only accepted as `try: return ..replace(..) except ValueError:`.
    dict(name="g_recur_safe_anchor", file="calgebra/recurrence.py", cls="RecurringPattern", func="_get_safe_anchor",
         kind="expr", res=True, ret="DT", tyvars=["DT", "DATE", "TD"],
         types={"DT": "DT", "DATE": "DATE", "TD": "TD", "FREQ": "freq"}, enums=FREQ,
         params=[("self_freq", "FREQ"), ("self_interval", "Z"), ("self_anchor_timestamp", "OZ"), ("self_epoch", "DT"),
                 ("dt_fromtimestamp", "Z -> DT"), ("dt_make", "Z -> Z -> Z -> DT"), ("dt_date", "DT -> DATE"),
                 ("date_sub", "DATE -> DATE -> TD"), ("td_days", "TD -> Z"), ("td_of_days", "Z -> TD"),
                 ("td_of_weeks", "Z -> TD"), ("dt_add", "DT -> TD -> DT"), ("dt_year", "DT -> Z"),
                 ("dt_month", "DT -> Z"), ("dt_replace_ym", "DT -> Z -> Z -> option DT"),
                 ("dt_replace_y", "DT -> Z -> option DT"), ("start_dt", "DT")],
         selfattrs={"freq": ("self_freq", "FREQ"), "interval": ("self_interval", "Z"),
                    "anchor_timestamp": ("self_anchor_timestamp", "OZ"), "_epoch": ("self_epoch", "DT")},
         calls={"datetime.fromtimestamp": dict(coq="dt_fromtimestamp", args=["Z"], fixed={"tz": "self.zone"}, ret="DT"),
                "datetime": dict(coq="dt_make", args=["Z", "Z", "Z"], fixed={"tzinfo": "self.zone"}, ret="DT"),
                "timedelta": [dict(coq="td_of_days", args=[], kw=[("days", "Z")], ret="TD"),
                              dict(coq="td_of_weeks", args=[], kw=[("weeks", "Z")], ret="TD")]},
         methods={("DT", "date"): dict(coq="dt_date", args=[], ret="DATE"),
                  ("DT", "replace"): [dict(coq="dt_replace_ym", args=[], kw=[("year", "Z"), ("month", "Z")],
                                           ret="O:DT", raises="ValueError"),
                                      dict(coq="dt_replace_y", args=[], kw=[("year", "Z")],
                                           ret="O:DT", raises="ValueError")]},
         attrs={("TD", "days"): ("td_days", "Z"), ("DT", "year"): ("dt_year", "Z"), ("DT", "month"): ("dt_month", "Z")},
         binops={("DATE", "-", "DATE"): ("date_sub", "TD"), ("DT", "+", "TD"): ("dt_add", "DT")}),
    # ---- cache.py.  self._sink (a MemoryTimeline holding only static intervals) is the state variable
    # self_sink : its SortedList, with the library models sl_add / sl_remove / fetch_static of Model/.
    dict(name="g_cache_purge_sink", file="calgebra/cache.py", cls="CachedTimeline", func="_purge_sink", kind="proc",
         params=[("self_sink", "LIST"), ("start", "Z"), ("end", "Z")], state=["self_sink"],
         calls={"self._sink.fetch": dict(coq="fetch_static", pre=["self_sink"], args=["OZ", "OZ", "B"], fetch=True,
                                         ret="LIST")},
         effects=SINK_EFFECTS),
    # the clipping loop of _fill_gap (the statements up to and including the `for`); the lazy key
    # validation (self._get_key may only raise) is a declared no-op on the modelled state
    dict(name="g_cache_fill_gap_clip", file="calgebra/cache.py", cls="CachedTimeline", func="_fill_gap", kind="proc",
         stop_after_loop=True, tyvars=["KEYS"], types={"KEYS": "KEYS"},
         params=[("self_sink", "LIST"), ("self_key_validated", "B"), ("self_key_fields", "O:KEYS"),
                 ("source_fetch", FETCH_T), ("gap_start", "Z"), ("gap_end", "Z")],
         state=["self_sink", "self_key_validated"],
         selfattrs={"_key_validated": ("self_key_validated", "B"), "_key_fields": ("self_key_fields", "O:KEYS")},
         calls={"self.source.fetch": ("source_fetch", ["OZ", "OZ", "B"], "LIST")},
         effects=dict(SINK_EFFECTS, **{"self._get_key": dict(var=None, args=["IVL"])})),
    # _evict_expired: the expiry heap is the list of its entries in pop order (Model/Cache.v), so
    # heap[0] = hd and heappop = hd / tl; self._cover.remove raises ValueError iff the cover is absent;
    # time.monotonic() is the parameter clock_now
    dict(name="g_cache_evict_expired", file="calgebra/cache.py", cls="CachedTimeline", func="_evict_expired",
         kind="proc", res=True, types={"HENT": "hent", "COV": "cov", "N": "N"}, tuples={"HENT": ["Z", "N", "COV"]},
         defaults={"HENT": HENT0},
         params=[("clock_now", "Z"), ("self_expiry_heap", "L:HENT"), ("self_cover", "L:COV"), ("self_sink", "LIST")],
         state=["self_expiry_heap", "self_cover", "self_sink"],
         selfattrs={"_expiry_heap": ("self_expiry_heap", "L:HENT")},
         calls={"monotonic": dict(coq="clock_now", args=[], ret="Z")},
         pops={"heapq.heappop": dict(arg="self._expiry_heap", var="self_expiry_heap", result="(hd " + HENT0 + " {var})",
                                     update="(tl {var})", ret="HENT")},
         attrs={("COV", "start"): ("cv_s", "Z"), ("COV", "end"): ("cv_e", "Z")},
         effects={"self._cover.remove": dict(var="self_cover", args=["COV"], update="(cov_remove {0} {var})",
                                             raises=("ValueError", "(existsb (cov_eqb {0}) {var})"), must_try=True),
                  "self._purge_sink": dict(var="self_sink", args=["Z", "Z"],
                                           update="(g_cache_purge_sink {var} {0} {1})")}),
    # ---- mutable/memory.py: the static part of MemoryTimeline.fetch
    dict(name="g_mem_fetch_static", file="calgebra/mutable/memory.py", cls="MemoryTimeline", func="_fetch_static",
         kind="gen",
         params=[("self_static_intervals", "LIST"), ("start", "OZ"), ("end", "OZ"), ("reverse", "B")],
         selfattrs={"_static_intervals": ("self_static_intervals", "LIST")}),
    # ---- core.py: Difference._sweep.  heapq.merge over the subtractor streams is the library model
    # merge_by lt_fwd (Model/Sweeps.v), accepted only with exactly this source text; the iterator is the
    # list of the items not yet consumed; the closure advance_subtractor is inlined at its calls.
    dict(name="g_diff_sweep", file="calgebra/core.py", cls="Difference", func="_sweep", kind="gen", res=True,
         params=[("source_stream", "LIST"), ("sub_streams", "L:LIST")],
         locals={"current_subtractor": "OIVL"}, inline=["advance_subtractor"],
         text_exprs={"heapq.merge(*sub_streams, key=lambda event: (event.finite_start, event.finite_end))":
                     ("(merge_by lt_fwd sub_streams)", "LIST")}),
]

# ------------------------------------------------------------------------------------------------
# Second extension.  core.py: _SourceState is the record sstate of Model/Sweeps.v (the iterator is the
# list of the items not yet consumed); its methods return (the object afterwards, the result).
SS_REC = {"SS": dict(coq="sstate", mk="mkS", cls="_SourceState",
                     fields=[("current", "cur", "OIVL"), ("_iterator", "rest", "LIST"),
                             ("exhausted", "exh", "B"), ("last_processed_cutoff", "lpc", "OZ")],
                     default="(mkS None [] true None)")}
CORE = "calgebra/core.py"

SPECS += [
    dict(name="g_ss_advance", file=CORE, cls="_SourceState", func="advance", kind="method", records=SS_REC,
         params=[("self", "SS")], ret="B"),
    dict(name="g_ss_init", file=CORE, cls="_SourceState", func="__init__", kind="init", records=SS_REC, record="SS",
         params=[("iterator", "LIST")]),
    dict(name="g_ss_advance_if_ends_at", file=CORE, cls="_SourceState", func="advance_if_ends_at", kind="method",
         records=SS_REC, params=[("self", "SS"), ("cutoff", "Z")], ret="B"),
    dict(name="g_ss_advance_if_stalled", file=CORE, cls="_SourceState", func="advance_if_stalled", kind="method",
         records=SS_REC, params=[("self", "SS"), ("cutoff", "Z")], ret="B"),
    dict(name="g_ss_was_processed_at", file=CORE, cls="_SourceState", func="was_processed_at", kind="expr",
         records=SS_REC, method_of="SS", params=[("self", "SS"), ("cutoff", "Z")], ret="B"),
    # Intersection._sweep: emit_indices is a frozenset[int] — read as the ascending list of its members
    # (Model/Loop.v, fs_of_list: trusted reading of the iteration order)
    dict(name="g_inter_sweep", file=CORE, cls="Intersection", func="_sweep", kind="gen", res=True, records=SS_REC,
         params=[("streams", "L:LIST"), ("emit_indices", "FS")]),
]


def regenerate(repo: Path, coq_dir: Path):
    """Rewrite Gen/Source.v if its content changed.  Returns ({name: error}, text)."""
    text, errors = pysrc.translate_all(repo, SPECS, HEADER)
    out = coq_dir / "Gen" / "Source.v"
    if not out.exists() or out.read_text() != text:
        out.write_text(text)
    return errors, text
