"""Which functions of calgebra the source translator (tie C) turns into Gallina, with the typing
information Python does not state.  name = the generated Coq definition (coq/Gen/Source.v)."""
from pathlib import Path

from . import pysrc

FETCH_T = "option Z -> option Z -> bool -> list ivl"

# Gen/Source.v may mention the models' data types and library models (freq, zmem, sl_add, ...)
# (Model.Metrics and Model.Slice first: Slice's error type shares constructor names with Model.Loop's exn,
# which must win; both define a type `bound`: the sum-type specs below use qualified names)
HEADER = pysrc.HEADER.replace("From CG Require Import Model.Loop.",
                              "From CG Require Import Model.Metrics Model.Slice Model.Loop Model.Recur Model.Cache.")

# self.freq is one of four strings: an enumeration (Model/Recur.v)
FREQ = {"FREQ": ("freq_eqb", {"daily": "Daily", "weekly": "Weekly", "monthly": "Monthly", "yearly": "Yearly"})}

SINK_EFFECTS = {"self._sink.add": dict(var="self_sink", args=["IVL"], update="(sl_add {0} {var})"),
                "self._sink.remove": dict(var="self_sink", args=["IVL"], update="(sl_remove {0} {var})")}

HENT0 = "(0, 0%N, mkCov 0 0 0)"          # default heap entry (only where Python would raise IndexError)

SPECS = [
    dict(name="g_finite_start", file="calgebra/interval.py", cls="Interval", func="finite_start", kind="expr",
         params=[("self", "IVL")], ret="Z"),
    dict(name="g_finite_end", file="calgebra/interval.py", cls="Interval", func="finite_end", kind="expr",
         params=[("self", "IVL")], ret="Z"),
    dict(name="g_neg", file="calgebra/core.py", func="_neg", kind="expr", params=[("val", "OZ")], ret="OZ"),
    dict(name="g_negate_interval", file="calgebra/core.py", func="_negate_interval", kind="expr",
         params=[("ivl", "IVL")], ret="IVL"),
    dict(name="g_negate_stream", file="calgebra/core.py", func="_negate_stream", kind="expr",
         params=[("stream", "LIST")], ret="LIST"),
    dict(name="g_solid_fetch", file="calgebra/core.py", cls="_SolidTimeline", func="fetch", kind="gen",
         params=[("start", "OZ"), ("end", "OZ"), ("reverse", "B")]),
    dict(name="g_compl_sweep", file="calgebra/core.py", cls="Complement", func="_sweep", kind="gen",
         params=[("source_stream", "LIST"), ("start", "OZ"), ("end", "OZ")]),
    dict(name="g_compl_fetch", file="calgebra/core.py", cls="Complement", func="fetch", kind="expr",
         params=[("source_fetch", FETCH_T), ("start", "OZ"), ("end", "OZ"), ("reverse", "B")], ret="LIST",
         calls={"self.source.fetch": ("source_fetch", ["OZ", "OZ", "B"], "LIST"),
                "self._sweep": ("g_compl_sweep", ["LIST", "OZ", "OZ"], "LIST")}),
    dict(name="g_filtered_fetch", file="calgebra/core.py", cls="Filtered", func="fetch", kind="expr",
         params=[("source_fetch", FETCH_T), ("filter_apply", "ivl -> bool"),
                 ("start", "OZ"), ("end", "OZ"), ("reverse", "B")], ret="LIST",
         calls={"self.source.fetch": ("source_fetch", ["OZ", "OZ", "B"], "LIST"),
                "self.filter.apply": ("filter_apply", ["IVL"], "B")}),
    dict(name="g_buffered_fetch", file="calgebra/transform.py", cls="_Buffered", func="fetch", kind="gen",
         params=[("source_fetch", FETCH_T), ("self_before", "Z"), ("self_after", "Z"),
                 ("start", "OZ"), ("end", "OZ"), ("reverse", "B")],
         selfattrs={"before": ("self_before", "Z"), "after": ("self_after", "Z")},
         calls={"self.source.fetch": ("source_fetch", ["OZ", "OZ", "B"], "LIST")}),
    dict(name="g_merged_fetch_forward", file="calgebra/transform.py", cls="_MergedWithin", func="_fetch_forward",
         kind="gen",
         params=[("source_fetch", FETCH_T), ("self_gap", "Z"), ("start", "OZ"), ("end", "OZ")],
         selfattrs={"gap": ("self_gap", "Z")},
         calls={"self.source.fetch": ("source_fetch", ["OZ", "OZ", "B"], "LIST")}),
    # ---- recurrence.py.  datetime values are an abstract type DT; the library calls (fromtimestamp,
    # rrule, ...) and the other methods are parameters of the generated definition.
    dict(name="g_recur_fetch_forward", file="calgebra/recurrence.py", cls="RecurringPattern", func="_fetch_forward",
         kind="gen", res=True, tyvars=["DT"], types={"DT": "DT", "FREQ": "freq"}, enums=FREQ,
         params=[("self_freq", "FREQ"), ("self_interval", "Z"), ("self_duration_seconds", "Z"),
                 ("self_exdates", "L:Z"),
                 ("dt_fromtimestamp", "Z -> DT"), ("get_safe_anchor", "DT -> DT"), ("dt_midnight", "DT -> DT"),
                 ("rrule_of", "DT -> list DT"), ("occurrence_to_interval", "DT -> ivl"),
                 ("start", "OZ"), ("end", "OZ")],
         selfattrs={"freq": ("self_freq", "FREQ"), "interval": ("self_interval", "Z"),
                    "duration_seconds": ("self_duration_seconds", "Z"), "exdates": ("self_exdates", "L:Z")},
         calls={"datetime.fromtimestamp": dict(coq="dt_fromtimestamp", args=["Z"], fixed={"tz": "self.zone"}, ret="DT"),
                "self._get_safe_anchor": ("get_safe_anchor", ["DT"], "DT"),
                "rrule": dict(coq="rrule_of", args=[], kw=[("dtstart", "DT")], fixed={"**": "self.rrule_kwargs"},
                              ret="L:DT"),
                "self._occurrence_to_interval": ("occurrence_to_interval", ["DT"], "IVL")},
         methods={("DT", "replace"): dict(coq="dt_midnight", args=[],
                                          fixed={"hour": "0", "minute": "0", "second": "0", "microsecond": "0"},
                                          ret="DT")}),
    # the forward fetch of a chunk is a parameter; its items have integer starts (assumption carried by
    # the equivalence theorem: true of everything _occurrence_to_interval builds)
    dict(name="g_recur_fetch_reverse", file="calgebra/recurrence.py", cls="RecurringPattern", func="_fetch_reverse",
         kind="gen", res=True, types={"FREQ": "freq"}, enums=FREQ,
         params=[("self_freq", "FREQ"), ("fetch_forward", "Z -> Z -> list ivl"), ("start", "OZ"), ("end", "OZ")],
         selfattrs={"freq": ("self_freq", "FREQ")},
         calls={"self._fetch_forward": ("fetch_forward", ["Z", "Z"], "LIST")},
         assume_not_none=["ivl.start"]),
    # datetime / date / timedelta are abstract types; the arithmetic between them is a parameter.
    # base_anchor.replace(year=.., month=..) raises ValueError when the day does not exist in that month:
    # its Coq form returns an option and is only accepted as `try: return ..replace(..) except ValueError:`.
    dict(name="g_recur_safe_anchor", file="calgebra/recurrence.py", cls="RecurringPattern", func="_get_safe_anchor",
         kind="expr", res=True, ret="DT", tyvars=["DT", "DATE", "TD"],
         types={"DT": "DT", "DATE": "DATE", "TD": "TD", "FREQ": "freq"}, enums=FREQ,
         params=[("self_freq", "FREQ"), ("self_interval", "Z"), ("self_anchor_timestamp", "OZ"), ("self_epoch", "DT"),
                 ("dt_fromtimestamp", "Z -> DT"), ("dt_make", "Z -> Z -> Z -> DT"), ("dt_date", "DT -> DATE"),
                 ("date_sub", "DATE -> DATE -> TD"), ("td_days", "TD -> Z"), ("td_of_days", "Z -> TD"),
                 ("td_of_weeks", "Z -> TD"), ("dt_add", "DT -> TD -> DT"), ("dt_year", "DT -> Z"),
                 ("dt_month", "DT -> Z"), ("dt_replace_ym", "DT -> Z -> Z -> option DT"),
                 ("dt_replace_y", "DT -> Z -> option DT"), ("start_dt", "DT")],
         selfattrs={"freq": ("self_freq", "FREQ"), "interval": ("self_interval", "Z"),
                    "anchor_timestamp": ("self_anchor_timestamp", "OZ"), "_epoch": ("self_epoch", "DT")},
         calls={"datetime.fromtimestamp": dict(coq="dt_fromtimestamp", args=["Z"], fixed={"tz": "self.zone"}, ret="DT"),
                "datetime": dict(coq="dt_make", args=["Z", "Z", "Z"], fixed={"tzinfo": "self.zone"}, ret="DT"),
                "timedelta": [dict(coq="td_of_days", args=[], kw=[("days", "Z")], ret="TD"),
                              dict(coq="td_of_weeks", args=[], kw=[("weeks", "Z")], ret="TD")]},
         methods={("DT", "date"): dict(coq="dt_date", args=[], ret="DATE"),
                  ("DT", "replace"): [dict(coq="dt_replace_ym", args=[], kw=[("year", "Z"), ("month", "Z")],
                                           ret="O:DT", raises="ValueError"),
                                      dict(coq="dt_replace_y", args=[], kw=[("year", "Z")],
                                           ret="O:DT", raises="ValueError")]},
         attrs={("TD", "days"): ("td_days", "Z"), ("DT", "year"): ("dt_year", "Z"), ("DT", "month"): ("dt_month", "Z")},
         binops={("DATE", "-", "DATE"): ("date_sub", "TD"), ("DT", "+", "TD"): ("dt_add", "DT")}),
    # ---- cache.py.  self._sink (a MemoryTimeline holding only static intervals) is the state variable
    # self_sink : its SortedList, with the library models sl_add / sl_remove / fetch_static of Model/.
    dict(name="g_cache_purge_sink", file="calgebra/cache.py", cls="CachedTimeline", func="_purge_sink", kind="proc",
         params=[("self_sink", "LIST"), ("start", "Z"), ("end", "Z")], state=["self_sink"],
         calls={"self._sink.fetch": dict(coq="fetch_static", pre=["self_sink"], args=["OZ", "OZ", "B"], fetch=True,
                                         ret="LIST")},
         effects=SINK_EFFECTS),
    # the clipping loop of _fill_gap (the statements up to and including the `for`); the lazy key
    # validation (self._get_key may only raise) is a declared no-op on the modelled state
    dict(name="g_cache_fill_gap_clip", file="calgebra/cache.py", cls="CachedTimeline", func="_fill_gap", kind="proc",
         stop_after_loop=True, tyvars=["KEYS"], types={"KEYS": "KEYS"},
         params=[("self_sink", "LIST"), ("self_key_validated", "B"), ("self_key_fields", "O:KEYS"),
                 ("source_fetch", FETCH_T), ("gap_start", "Z"), ("gap_end", "Z")],
         state=["self_sink", "self_key_validated"],
         selfattrs={"_key_validated": ("self_key_validated", "B"), "_key_fields": ("self_key_fields", "O:KEYS")},
         calls={"self.source.fetch": ("source_fetch", ["OZ", "OZ", "B"], "LIST")},
         effects=dict(SINK_EFFECTS, **{"self._get_key": dict(var=None, args=["IVL"])})),
    # _evict_expired: the expiry heap is the list of its entries in pop order (Model/Cache.v), so
    # heap[0] = hd and heappop = hd / tl; self._cover.remove raises ValueError iff the cover is absent;
    # time.monotonic() is the parameter clock_now
    dict(name="g_cache_evict_expired", file="calgebra/cache.py", cls="CachedTimeline", func="_evict_expired",
         kind="proc", res=True, types={"HENT": "hent", "COV": "cov", "N": "N"}, tuples={"HENT": ["Z", "N", "COV"]},
         defaults={"HENT": HENT0},
         params=[("clock_now", "Z"), ("self_expiry_heap", "L:HENT"), ("self_cover", "L:COV"), ("self_sink", "LIST")],
         state=["self_expiry_heap", "self_cover", "self_sink"],
         selfattrs={"_expiry_heap": ("self_expiry_heap", "L:HENT")},
         calls={"monotonic": dict(coq="clock_now", args=[], ret="Z")},
         pops={"heapq.heappop": dict(arg="self._expiry_heap", var="self_expiry_heap", result="(hd " + HENT0 + " {var})",
                                     update="(tl {var})", ret="HENT")},
         attrs={("COV", "start"): ("cv_s", "Z"), ("COV", "end"): ("cv_e", "Z")},
         effects={"self._cover.remove": dict(var="self_cover", args=["COV"], update="(cov_remove {0} {var})",
                                             raises=("ValueError", "(existsb (cov_eqb {0}) {var})"), must_try=True),
                  "self._purge_sink": dict(var="self_sink", args=["Z", "Z"],
                                           update="(g_cache_purge_sink {var} {0} {1})")}),
    # ---- mutable/memory.py: the static part of MemoryTimeline.fetch
    dict(name="g_mem_fetch_static", file="calgebra/mutable/memory.py", cls="MemoryTimeline", func="_fetch_static",
         kind="gen",
         params=[("self_static_intervals", "LIST"), ("start", "OZ"), ("end", "OZ"), ("reverse", "B")],
         selfattrs={"_static_intervals": ("self_static_intervals", "LIST")}),
    # ---- core.py: Difference._sweep.  heapq.merge over the subtractor streams is the library model
    # merge_by lt_fwd (Model/Sweeps.v), accepted only with exactly this source text; the iterator is the
    # list of the items not yet consumed; the closure advance_subtractor is inlined at its calls.
    dict(name="g_diff_sweep", file="calgebra/core.py", cls="Difference", func="_sweep", kind="gen", res=True,
         params=[("source_stream", "LIST"), ("sub_streams", "L:LIST")],
         locals={"current_subtractor": "OIVL"}, inline=["advance_subtractor"],
         text_exprs={"heapq.merge(*sub_streams, key=lambda event: (event.finite_start, event.finite_end))":
                     ("(merge_by lt_fwd sub_streams)", "LIST")}),
]

# ------------------------------------------------------------------------------------------------
# Second extension.  core.py: _SourceState is the record sstate of Model/Sweeps.v (the iterator is the
# list of the items not yet consumed); its methods return (the object afterwards, the result).
SS_REC = {"SS": dict(coq="sstate", mk="mkS", cls="_SourceState",
                     fields=[("current", "cur", "OIVL"), ("_iterator", "rest", "LIST"),
                             ("exhausted", "exh", "B"), ("last_processed_cutoff", "lpc", "OZ")],
                     default="(mkS None [] true None)")}
CORE = "calgebra/core.py"

_B = {"{x} is None": ("false", "B"), "isinstance({x}, int)": ("false", "B"), "isinstance({x}, datetime)": ("false", "B"),
      "{x}.tzinfo is None": None, "int({x}.timestamp())": None}
BOUND_SUM = {"BOUND": dict(
    coq="Slice.bound",
    ctors=[("Slice.BNone", []), ("Slice.BInt", [("z", "Z")]), ("Slice.BAware", [("t", "Z"), ("zone", "N")]),
           ("Slice.BNaive", []), ("Slice.BOther", [])],
    exprs={"Slice.BNone": dict(_B, **{"{x} is None": ("true", "B")}),
           "Slice.BInt": dict(_B, **{"isinstance({x}, int)": ("true", "B"), "{x}": ("{z}", "Z")}),
           "Slice.BAware": dict(_B, **{"isinstance({x}, datetime)": ("true", "B"), "{x}.tzinfo is None": ("false", "B"),
                                       "int({x}.timestamp())": ("{t}", "Z")}),
           "Slice.BNaive": dict(_B, **{"isinstance({x}, datetime)": ("true", "B"), "{x}.tzinfo is None": ("true", "B")}),
           "Slice.BOther": dict(_B)})}
_PL = ["hour", "day", "week", "month", "year", "full"]
_PC = ["Metrics.PHour", "Metrics.PDay", "Metrics.PWeek", "Metrics.PMonth", "Metrics.PYear", "Metrics.PFull"]
PERIOD_SUM = {"PERIOD": dict(
    coq="Metrics.period", ctors=[(c, []) for c in _PC],
    exprs={c: {"{x} == '%s'" % lit: (("true" if lit == l else "false"), "B") for lit in _PL} for c, l in zip(_PC, _PL)})}
# the slice step: SNone = None; SInt z = an int, or a value equal to one (True, 1.0: `x in (1, -1)` and
# `x == -1` compare by ==); SOther = a value that is not None and equals neither 1 nor -1
STEP_SUM = {"STEP": dict(
    coq="Slice.stepv", ctors=[("Slice.SNone", []), ("Slice.SInt", [("z", "Z")]), ("Slice.SOther", [])],
    exprs={"Slice.SNone": {"{x} is not None": ("false", "B"), "{x} not in (1, -1)": ("true", "B"), "{x} == -1": ("false", "B")},
           "Slice.SInt": {"{x} is not None": ("true", "B"), "{x} not in (1, -1)": ("(negb (zmem {z} [1; (-1)]))", "B"),
                    "{x} == -1": ("({z} =? (-1))", "B")},
           "Slice.SOther": {"{x} is not None": ("true", "B"), "{x} not in (1, -1)": ("true", "B"),
                      "{x} == -1": ("false", "B")}})}

SPECS += [
    dict(name="g_ss_advance", file=CORE, cls="_SourceState", func="advance", kind="method", records=SS_REC,
         params=[("self", "SS")], ret="B"),
    dict(name="g_ss_init", file=CORE, cls="_SourceState", func="__init__", kind="init", records=SS_REC, record="SS",
         params=[("iterator", "LIST")]),
    dict(name="g_ss_advance_if_ends_at", file=CORE, cls="_SourceState", func="advance_if_ends_at", kind="method",
         records=SS_REC, params=[("self", "SS"), ("cutoff", "Z")], ret="B"),
    dict(name="g_ss_advance_if_stalled", file=CORE, cls="_SourceState", func="advance_if_stalled", kind="method",
         records=SS_REC, params=[("self", "SS"), ("cutoff", "Z")], ret="B"),
    dict(name="g_ss_was_processed_at", file=CORE, cls="_SourceState", func="was_processed_at", kind="expr",
         records=SS_REC, method_of="SS", params=[("self", "SS"), ("cutoff", "Z")], ret="B"),
    # Intersection._sweep: emit_indices is a frozenset[int] — read as the ascending list of its members
    # (Model/Loop.v, fs_of_list: trusted reading of the iteration order)
    dict(name="g_inter_sweep", file=CORE, cls="Intersection", func="_sweep", kind="gen", res=True, records=SS_REC,
         params=[("streams", "L:LIST"), ("emit_indices", "FS")]),
    # Intersection.fetch: the operands are values of an abstract type TL with their _is_mask flag and their
    # fetch as function parameters; the emit-index selection and the time-negation wrapper are translated
    dict(name="g_inter_fetch", file=CORE, cls="Intersection", func="fetch", kind="expr", res=True, ret="LIST",
         tyvars=["TL"], types={"TL": "TL"},
         params=[("self_sources", "L:TL"), ("tl_is_mask", "TL -> bool"), ("tl_fetch", "TL -> " + FETCH_T),
                 ("start", "OZ"), ("end", "OZ"), ("reverse", "B")],
         selfattrs={"sources": ("self_sources", "L:TL")},
         attrs={("TL", "_is_mask"): ("tl_is_mask", "B")},
         methods={("TL", "fetch"): dict(coq="tl_fetch", args=["OZ", "OZ", "B"], fetch=True, ret="LIST")},
         calls={"self._sweep": dict(coq="g_inter_sweep", args=["L:LIST", "FS"], ret="LIST", res=True, fuel=True)}),
    # Timeline._coerce_bound / __getitem__.  A slice bound is a value of the sum type `bound` of Model/Slice.v:
    #   BNone = None;  BInt z = an int (bool included: isinstance(True, int));  BAware t zone = an aware datetime
    #   with int(bound.timestamp()) = t;  BNaive = a datetime whose tzinfo is None;  BOther = anything else.
    # The tests of the source on a bound are read per constructor (TRUSTED table below); the translation is a
    # `match` whose arms keep only the branch that runs.
    dict(name="g_coerce_bound", file=CORE, cls="Timeline", func="_coerce_bound", kind="expr", res=True, ret="OZ",
         file_has=["from datetime import datetime"], types={"N": "N"}, sums=BOUND_SUM,
         params=[("bound", "BOUND")]),
    dict(name="g_getitem", file=CORE, cls="Timeline", func="__getitem__", kind="expr", res=True, ret="LIST",
         types={"N": "N"}, sums=dict(BOUND_SUM, **STEP_SUM),
         params=[("self_fetch", FETCH_T), ("clipped_fetch", FETCH_T), ("item_start", "BOUND"), ("item_stop", "BOUND"),
                 ("item_step", "STEP")],
         text_exprs={"item.start": ("item_start", "BOUND"), "item.stop": ("item_stop", "BOUND"),
                     "item.step": ("item_step", "STEP")},
         calls={"self._coerce_bound": dict(coq="g_coerce_bound", args=["BOUND", "STRLIT"], ret="OZ", res=True),
                "self.fetch": ("self_fetch", ["OZ", "OZ", "B"], "LIST"),
                # the clipped timeline self & solid: its fetch is a parameter (Model: fetch env (and_ e Solid))
                "(self & cast('Timeline[IvlOut]', solid)).fetch": ("clipped_fetch", ["OZ", "OZ", "B"], "LIST")}),
    # ---- cache.py, the rest.  Keys (what _get_key returns: a tuple of field values, or None) are values of an
    # abstract type KEY with == as the parameter key_eqb; a dict is the list of its pairs in insertion order
    # (Model/Loop.v); `left_by_key.keys() & right_by_key.keys()` is read in the insertion order of the left
    # dictionary (TRUSTED: Python does not specify the iteration order of that set; for two different keys the
    # loop bodies touch different intervals, so another order could only permute stored intervals that have
    # the same (start, end)).  self._sink.overlapping is Timeline.overlapping on the sink's store.
    dict(name="g_cache_stitch_at", file="calgebra/cache.py", cls="CachedTimeline", func="_stitch_at", kind="proc",
         tyvars=["KEYS", "KEY"], types={"KEYS": "KEYS", "KEY": "KEY"},
         dicts={"DKI": dict(key="O:KEY", val="IVL", eqb="(opt_eqb key_eqb)")},
         params=[("self_key_fields", "O:KEYS"), ("get_key", "ivl -> option KEY"), ("key_eqb", "KEY -> KEY -> bool"),
                 ("fresh_left", "B"), ("self_sink", "LIST"), ("point", "Z")],
         state=["self_sink"], selfattrs={"_key_fields": ("self_key_fields", "O:KEYS")},
         text_exprs={"fresh_side == 'left'": ("fresh_left", "B")},
         calls={"self._sink.overlapping": dict(coq="sink_overlapping", pre=["self_sink"], args=["Z"], ret="LIST"),
                "self._get_key": ("get_key", ["IVL"], "O:KEY")},
         effects=SINK_EFFECTS),
    # the whole of _fill_gap: the clipping loop, the cover / heap bookkeeping and the two stitches;
    # monotonic() is read once: the parameter clock_now
    dict(name="g_cache_fill_gap", file="calgebra/cache.py", cls="CachedTimeline", func="_fill_gap", kind="proc",
         tyvars=["KEYS", "KEY"], types={"KEYS": "KEYS", "KEY": "KEY", "HENT": "hent", "COV": "cov", "N": "N"},
         tuples={"HENT": ["Z", "N", "COV"]},
         params=[("self_key_fields", "O:KEYS"), ("get_key", "ivl -> option KEY"), ("key_eqb", "KEY -> KEY -> bool"),
                 ("source_fetch", FETCH_T), ("self_ttl", "Z"), ("clock_now", "Z"),
                 ("self_sink", "LIST"), ("self_key_validated", "B"), ("self_cover", "L:COV"), ("self_expiry_seq", "N"),
                 ("self_expiry_heap", "L:HENT"), ("gap_start", "Z"), ("gap_end", "Z")],
         state=["self_sink", "self_key_validated", "self_cover", "self_expiry_seq", "self_expiry_heap"],
         selfattrs={"_key_validated": ("self_key_validated", "B"), "_key_fields": ("self_key_fields", "O:KEYS"),
                    "_expiry_seq": ("self_expiry_seq", "N"), "_expiry_heap": ("self_expiry_heap", "L:HENT"),
                    "ttl": ("self_ttl", "Z")},
         calls={"self.source.fetch": ("source_fetch", ["OZ", "OZ", "B"], "LIST"),
                "monotonic": dict(coq="clock_now", args=[], ret="Z"),
                "CoverInterval": dict(coq="mkCov", args=[], kw=[("start", "Z"), ("end", "Z"), ("created", "Z")],
                                      ret="COV")},
         attrs={("COV", "created"): ("cv_t", "Z")},
         binops={("N", "+", "Z"): ("N_plus_Z", "N")},
         effects=dict(SINK_EFFECTS, **{
             "self._get_key": dict(var=None, args=["IVL"]),
             "self._cover.add": dict(var="self_cover", args=["COV"], update="(cov_add {0} {var})"),
             "heapq.heappush": dict(var="self_expiry_heap", args=["L:HENT", "HENT"], update="(heap_push {1} {var})"),
             "self._stitch_at": dict(var="self_sink", args=["Z"],
                                     kwmap={"fresh_side": {"'left'": "true", "'right'": "false"}},
                                     update="(g_cache_stitch_at self_key_fields get_key key_eqb {fresh_side} {var} {0})")})),
    dict(name="g_cache_fetch_sink", file="calgebra/cache.py", cls="CachedTimeline", func="_fetch_sink", kind="gen",
         params=[("self_sink", "LIST"), ("start", "Z"), ("end", "Z"), ("reverse", "B")],
         calls={"self._sink.fetch": dict(coq="fetch_static", pre=["self_sink"], args=["OZ", "OZ", "B"], fetch=True,
                                         ret="LIST")}),
    # CachedTimeline.fetch.  The clock is a state variable: every monotonic() reading (one in _evict_expired,
    # one per _fill_gap) returns it and moves it on by the parameter tick (Model/Cache.v).  The gaps
    # `(query - self._cover).fetch(start, end)` are the model's gaps_of on the cover as it is when the loop
    # starts (TRUSTED reading of that expression: the Difference generator snapshots the cover's store at its
    # first next(), before the first _fill_gap).  `with self._lock:` is transparent (lock discipline: C11).
    dict(name="g_cache_fetch", file="calgebra/cache.py", cls="CachedTimeline", func="fetch", kind="proc", res=True,
         yields=True, with_ok=["self._lock"], assume_not_none=["gap.start", "gap.end"],
         tyvars=["KEYS", "KEY"], types={"KEYS": "KEYS", "KEY": "KEY", "HENT": "hent", "COV": "cov", "N": "N", "U": "unit"},
         params=[("self_key_fields", "O:KEYS"), ("get_key", "ivl -> option KEY"), ("key_eqb", "KEY -> KEY -> bool"),
                 ("source_fetch", FETCH_T), ("self_ttl", "Z"), ("tick", "Z"),
                 ("clock", "Z"), ("self_sink", "LIST"), ("self_key_validated", "B"), ("self_cover", "L:COV"),
                 ("self_expiry_seq", "N"), ("self_expiry_heap", "L:HENT"),
                 ("start", "OZ"), ("end", "OZ"), ("reverse", "B")],
         state=["clock", "self_sink", "self_key_validated", "self_cover", "self_expiry_seq", "self_expiry_heap"],
         text_exprs={"timeline(Interval(start=start, end=end))": ("tt", "U"),
                     "(query - self._cover).fetch(start, end)": ("(gaps_of self_cover (ozd start) (ozd end_))", "LIST")},
         calls={"self._fetch_sink": dict(coq="g_cache_fetch_sink", pre=["self_sink"], args=["Z", "Z"],
                                         kw=[("reverse", "B")], ret="LIST")},
         effects={
             "self._evict_expired": dict(
                 vars=["self_expiry_heap", "self_cover", "self_sink", "clock"], args=[], res=True, fuel=True,
                 update="(res_bind (g_cache_evict_expired fuel clock self_expiry_heap self_cover self_sink) "
                        "(fun x_ => RDone (x_, clock + tick)))"),
             "self._fill_gap": dict(
                 vars=["self_sink", "self_key_validated", "self_cover", "self_expiry_seq", "self_expiry_heap", "clock"],
                 args=["Z", "Z"],
                 update="(g_cache_fill_gap self_key_fields get_key key_eqb source_fetch self_ttl clock self_sink "
                        "self_key_validated self_cover self_expiry_seq self_expiry_heap {0} {1}, clock + tick)")}),
    # ---- core.py: the fetch / overlapping wrappers.  Operands are values of an abstract type TL with their
    # fetch (and overlapping) as function parameters.  heapq.merge is the library model merge_by, accepted
    # only with exactly these two key lambdas.
    dict(name="g_union_fetch", file=CORE, cls="Union", func="fetch", kind="expr", ret="LIST",
         tyvars=["TL"], types={"TL": "TL"},
         params=[("self_sources", "L:TL"), ("tl_fetch", "TL -> " + FETCH_T),
                 ("start", "OZ"), ("end", "OZ"), ("reverse", "B")],
         selfattrs={"sources": ("self_sources", "L:TL")},
         methods={("TL", "fetch"): dict(coq="tl_fetch", args=["OZ", "OZ", "B"], fetch=True, ret="LIST")},
         text_exprs={"heapq.merge(*streams, key=lambda e: (-e.finite_start, -e.finite_end))":
                     ("(merge_by lt_rev streams)", "LIST"),
                     "heapq.merge(*streams, key=lambda e: (e.finite_start, e.finite_end))":
                     ("(merge_by lt_fwd streams)", "LIST")}),
    dict(name="g_diff_fetch", file=CORE, cls="Difference", func="fetch", kind="expr", res=True, ret="LIST",
         tyvars=["TL"], types={"TL": "TL"},
         params=[("source_fetch", FETCH_T), ("self_subtractors", "L:TL"), ("tl_fetch", "TL -> " + FETCH_T),
                 ("start", "OZ"), ("end", "OZ"), ("reverse", "B")],
         selfattrs={"subtractors": ("self_subtractors", "L:TL")},
         methods={("TL", "fetch"): dict(coq="tl_fetch", args=["OZ", "OZ", "B"], fetch=True, ret="LIST")},
         calls={"self.source.fetch": ("source_fetch", ["OZ", "OZ", "B"], "LIST"),
                "self._sweep": dict(coq="g_diff_sweep", args=["LIST", "L:LIST"], ret="LIST", res=True, fuel=True)}),
    # Difference.overlapping returns the generator generate(): read as the generator itself
    dict(name="g_diff_overlapping", file=CORE, cls="Difference", func="overlapping", kind="gen", res=True,
         returned_generator="generate", tyvars=["TL"], types={"TL": "TL"},
         params=[("source_overlapping", "Z -> list ivl"), ("self_subtractors", "L:TL"), ("tl_fetch", "TL -> " + FETCH_T),
                 ("point", "Z")],
         selfattrs={"subtractors": ("self_subtractors", "L:TL")},
         methods={("TL", "fetch"): dict(coq="tl_fetch", args=["OZ", "OZ", "B"], fetch=True, ret="LIST")},
         calls={"self.source.overlapping": ("source_overlapping", ["Z"], "LIST"),
                "self._sweep": dict(coq="g_diff_sweep", args=["LIST", "L:LIST"], ret="LIST", res=True, fuel=True)}),
    # Complement.overlapping: self.fetch is the complement's own fetch (a parameter)
    dict(name="g_compl_overlapping", file=CORE, cls="Complement", func="overlapping", kind="expr", ret="LIST",
         params=[("source_fetch", FETCH_T), ("self_fetch", FETCH_T), ("point", "Z")],
         calls={"self.source.fetch": ("source_fetch", ["OZ", "OZ", "B"], "LIST"),
                "self.fetch": ("self_fetch", ["OZ", "OZ", "B"], "LIST")}),
    # Timeline.overlapping (the base implementation)
    dict(name="g_base_overlapping", file=CORE, cls="Timeline", func="overlapping", kind="expr", ret="LIST",
         params=[("self_fetch", FETCH_T), ("point", "Z")],
         calls={"self.fetch": ("self_fetch", ["OZ", "OZ", "B"], "LIST")}),
    # ---- recurrence.py: _occurrence_to_interval.  Aware datetimes are values of an abstract type DT; the
    # datetime operations are typed library parameters (the equivalence theorem instantiates them with the
    # zone model: mk_wall / wall_to_utc / utc_to_wall).  x.timestamp() of a whole-second datetime is an int;
    # replace(hour=, minute=, second=) is total here (it raises ValueError for fields out of range: excluded
    # by the theorem's hypothesis rule_accepted).
    dict(name="g_recur_occurrence_to_interval", file="calgebra/recurrence.py", cls="RecurringPattern",
         func="_occurrence_to_interval", kind="expr", ret="IVL", tyvars=["DT", "TD"], types={"DT": "DT", "TD": "TD"},
         params=[("self_start_seconds", "Z"), ("self_duration_seconds", "Z"),
                 ("dt_replace_hms", "DT -> Z -> Z -> Z -> DT"), ("dt_timestamp", "DT -> Z"),
                 ("dt_fromtimestamp", "Z -> DT"), ("td_of_seconds", "Z -> TD"), ("dt_add", "DT -> TD -> DT"),
                 ("interval_class", "Z -> Z -> ivl"), ("occurrence", "DT")],
         selfattrs={"start_seconds": ("self_start_seconds", "Z"), "duration_seconds": ("self_duration_seconds", "Z")},
         calls={"datetime.fromtimestamp": dict(coq="dt_fromtimestamp", args=["Z"], fixed={"tz": "window_start.tzinfo"},
                                               ret="DT"),
                "timedelta": dict(coq="td_of_seconds", args=[], kw=[("seconds", "Z")], ret="TD"),
                "self.interval_class": dict(coq="interval_class", args=[], kw=[("start", "Z"), ("end", "Z")],
                                            fixed={"**": "self.metadata"}, ret="IVL")},
         methods={("DT", "replace"): dict(coq="dt_replace_hms", args=[],
                                          kw=[("hour", "Z"), ("minute", "Z"), ("second", "Z")], ret="DT"),
                  ("DT", "timestamp"): dict(coq="dt_timestamp", args=[], ret="Z")},
         binops={("DT", "+", "TD"): ("dt_add", "DT")}),
    # ---- metrics.py: _period_windows_with_dt.  `period` is the sum type of Model/Metrics.v (one constructor
    # per literal of Period); the datetime operations are typed library parameters as above.
    dict(name="g_period_windows_dt", file="calgebra/metrics.py", func="_period_windows_with_dt", kind="expr",
         res=True, ret="L:WIN", tyvars=["DT", "TD"],
         types={"DT": "DT", "TD": "TD", "WIN": "(DT * Z * Z)", "U": "unit"}, tuples={"WIN": ["DT", "Z", "Z"]},
         sums=PERIOD_SUM, annotations={"list[tuple[datetime, int, int]]": "L:WIN"},
         file_has=["Period = Literal['hour', 'day', 'week', 'month', 'year', 'full']",
                   "from datetime import date, datetime, timedelta"],
         params=[("p_fromtimestamp", "Z -> DT"), ("p_ymd", "Z -> Z -> Z -> DT"), ("p_ymdh", "Z -> Z -> Z -> Z -> DT"),
                 ("p_hours", "Z -> TD"), ("p_days", "Z -> TD"), ("p_weeks", "Z -> TD"),
                 ("p_add", "DT -> TD -> DT"), ("p_sub", "DT -> TD -> DT"), ("p_lt", "DT -> DT -> bool"),
                 ("p_timestamp", "DT -> Z"), ("p_weekday", "DT -> Z"),
                 ("p_year", "DT -> Z"), ("p_month", "DT -> Z"), ("p_day", "DT -> Z"), ("p_hour", "DT -> Z"),
                 ("start_ts", "Z"), ("end_ts", "Z"), ("period", "PERIOD")],
         text_exprs={"ZoneInfo(tz)": ("tt", "U")},
         calls={"datetime.fromtimestamp": dict(coq="p_fromtimestamp", args=["Z"], fixed={"tz": "zone"}, ret="DT"),
                "datetime": [dict(coq="p_ymdh", args=["Z", "Z", "Z", "Z"], fixed={"tzinfo": "zone"}, ret="DT"),
                             dict(coq="p_ymd", args=["Z", "Z", "Z"], fixed={"tzinfo": "zone"}, ret="DT")],
                "timedelta": [dict(coq="p_hours", args=[], kw=[("hours", "Z")], ret="TD"),
                              dict(coq="p_days", args=[], kw=[("days", "Z")], ret="TD"),
                              dict(coq="p_weeks", args=[], kw=[("weeks", "Z")], ret="TD")]},
         methods={("DT", "timestamp"): dict(coq="p_timestamp", args=[], ret="Z"),
                  ("DT", "weekday"): dict(coq="p_weekday", args=[], ret="Z")},
         attrs={("DT", "year"): ("p_year", "Z"), ("DT", "month"): ("p_month", "Z"), ("DT", "day"): ("p_day", "Z"),
                ("DT", "hour"): ("p_hour", "Z")},
         binops={("DT", "+", "TD"): ("p_add", "DT"), ("DT", "-", "TD"): ("p_sub", "DT")},
         cmpops={("DT", "<", "DT"): "p_lt"}),
]

from . import srcspecs_small                                                   # third extension, tag "small"
SPECS += srcspecs_small.SPECS_SMALL; HEADER += srcspecs_small.HEADER_SMALL
from . import srcspecs_mem  # noqa: E402  (third extension, tag mem: MemoryTimeline / MutableTimeline)
SPECS += srcspecs_mem.SPECS_MEM; HEADER = HEADER.rstrip("\n") + "\n" + srcspecs_mem.HEADER_MEM + "\n"  # noqa: E702

from .srcspecs_met import SPECS_MET, HEADER_MET      # third extension: calgebra/metrics.py
SPECS, HEADER = SPECS + SPECS_MET, HEADER + HEADER_MET

from .srcspecs_gcsa import SPECS_GCSA  # noqa: E402  (third extension, tag gcsa: calgebra/gcsa.py)
SPECS += SPECS_GCSA
from .srcspecs_filt import SPECS_FILT, HEADER_FILT  # noqa: E402  (tag filt: properties.py, Filter classes, dispatch)
SPECS += SPECS_FILT; HEADER += HEADER_FILT  # noqa: E702
from . import srcspecs_rec                     # recurrence.py: constructor, RRULE text, fetch dispatcher
SPECS += srcspecs_rec.SPECS_REC
HEADER = srcspecs_rec.HEADER_PRE + HEADER
from .srcspecs_ical import SPECS_ICAL, HEADER_ICAL  # noqa: E402  (third extension, tag ical: calgebra/ical.py)
SPECS += SPECS_ICAL; HEADER = HEADER_ICAL + HEADER  # noqa: E702


def regenerate(repo: Path, coq_dir: Path):
    """Rewrite Gen/Source.v if its content changed.  Returns ({name: error}, text)."""
    text, errors = pysrc.translate_all(repo, SPECS, HEADER)
    out = coq_dir / "Gen" / "Source.v"
    if not out.exists() or out.read_text() != text:
        out.write_text(text)
    return errors, text
