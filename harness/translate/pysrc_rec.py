"""Tie C, third extension (tag: rec): constructs needed by the text and the constructor of
calgebra/recurrence.py.  Registered as handlers of pysrc.py (REC_*_HOOKS); every handler is consulted only
for a spec with a "rec_ext" entry and returns None when it does not apply.  Fail-closed like the rest:
whatever is not fully understood raises Unsupported.

spec["rec_ext"] may declare (see srcspecs_rec.py for the TRUSTED readings each one stands for):
   strs        dict(type, lits={literal text: coq}, of={type: coq function to text}, cat, join, truthy_opt)
               strings are values of the spec type `type`; f"..{e}.." is the concatenation (cat) of its literal
               pieces (each must be in lits) and of the text of its values; sep.join(xs) = join lits[sep] xs;
               str(n) / map(str, ns) for ints
   kwdicts     type -> dict(mk=constructor, fields=[(key, projection, type O:T)], set="setter name with {key}")
               a dict with known string keys, each present or not: d.get("k") = projection (an option),
               d.get("k", default), {"k": e, ..} = constructor, d["k"] = e = the record with that field Some e
   isinstance  {(type, class text): True | False}     isinstance(x, C) for x of that type (lists: "list" is built in)
   const_dicts [names]  module-level dict literals with constant keys and values, assigned once and only read:
               `for k, v in NAME.items():` is unrolled over the literal, in its order
   opt_if      generic Optional values (types "O:T"): `if x is None` / `if x is not None` on a plain name becomes a
               match that rebinds the name at the underlying type
   fragment    see fragment_function()
   imports     [(module, name)]: the module binds `name` by `from module import name` and by nothing else
"""
from __future__ import annotations

import ast
import copy

from . import pysrc
from .pysrc import Unsupported, cname


def ext(tr):
    return tr.spec.get("rec_ext")


# ---------------------------------------------------------------------------------------------- strings
def _lit(tr, s):
    S = ext(tr)["strs"]
    if s not in S["lits"]:
        raise Unsupported(f"string literal {s!r} has no declared token reading")
    return S["lits"][s]


def fstring(tr, e, env):
    """f"..{e}.." -> cat of the readings of its pieces (adjacent literal pieces are one literal)"""
    S = ext(tr)["strs"]
    pieces = []                      # ("lit", python str) | ("val", coq text)
    for v in e.values:
        if isinstance(v, ast.Constant) and isinstance(v.value, str):
            pieces.append(("lit", v.value))
        elif isinstance(v, ast.FormattedValue):
            if v.conversion != -1 or v.format_spec is not None:
                raise Unsupported("f-string conversion / format spec")
            if isinstance(v.value, ast.Constant) and isinstance(v.value.value, str):
                pieces.append(("lit", v.value.value))        # (a loop constant of an unrolled loop)
                continue
            t, ty = tr.expr0(v.value, env)
            if ty == "OZ":
                t, ty = tr.expr(v.value, env, "Z")           # only under a not-None fact
            elif ty == "O:" + S["type"]:
                t, ty = tr.expr(v.value, env, S["type"])
            if ty == S["type"]:
                pieces.append(("val", t))
            elif ty in S["of"]:
                pieces.append(("val", f"({S['of'][ty]} {t})"))
            else:
                raise Unsupported(f"f-string value of type {ty}")
        else:
            raise Unsupported("f-string piece")
    merged = []
    for k, v in pieces:
        if k == "lit" and merged and merged[-1][0] == "lit":
            merged[-1] = ("lit", merged[-1][1] + v)
        else:
            merged.append((k, v))
    texts = [(_lit(tr, v) if k == "lit" else v) for k, v in merged if not (k == "lit" and v == "")]
    if not texts:
        raise Unsupported("empty f-string")
    out = texts[-1]
    for t in reversed(texts[:-1]):
        out = f"({S['cat']} {t} {out})"
    return out, S["type"]


def str_exprs(tr, e, env, want):
    S = ext(tr).get("strs")
    if not S:
        return None
    if isinstance(e, ast.JoinedStr):
        return fstring(tr, e, env)
    if isinstance(e, ast.Constant) and isinstance(e.value, str) and want == S["type"]:
        return _lit(tr, e.value), S["type"]
    if isinstance(e, ast.Call) and isinstance(e.func, ast.Attribute) and e.func.attr == "join" and \
            isinstance(e.func.value, ast.Constant) and isinstance(e.func.value.value, str):
        if len(e.args) != 1 or e.keywords:
            raise Unsupported("call shape of str.join")
        xs, ty = tr.expr0(e.args[0], env)
        if not tr.same(ty, "L:" + S["type"]):
            raise Unsupported(f"join of {ty}")
        return f"({S['join']} {_lit(tr, e.func.value.value)} {xs})", S["type"]
    if isinstance(e, ast.Call) and isinstance(e.func, ast.Name) and e.func.id == "str" and "str" not in env \
            and len(e.args) == 1 and not e.keywords:
        t, ty = tr.expr0(e.args[0], env)
        if ty == S["type"]:
            return t, ty
        if ty in S["of"]:
            return f"({S['of'][ty]} {t})", S["type"]
        raise Unsupported(f"str() of {ty}")
    if isinstance(e, ast.Call) and isinstance(e.func, ast.Name) and e.func.id == "map" and "map" not in env \
            and len(e.args) == 2 and not e.keywords and isinstance(e.args[0], ast.Name) and e.args[0].id == "str" \
            and "str" not in env:
        xs, ty = tr.expr0(e.args[1], env)
        if not tr.is_list(ty) or tr.item_of(ty) not in S["of"]:
            raise Unsupported(f"map(str, ..) over {ty}")
        return f"(map {S['of'][tr.item_of(ty)]} {xs})", "L:" + S["type"]
    return None


# ---------------------------------------------------------------------------------------------- kwdicts
def kw_field(tr, dty, key):
    for k, proj, ty in ext(tr)["kwdicts"][dty]["fields"]:
        if k == key:
            return proj, ty
    raise Unsupported(f"key {key!r} is not a declared key of {dty}")


def kw_exprs(tr, e, env, want):
    K = ext(tr).get("kwdicts")
    if not K:
        return None
    # d.get("k") / d.get("k", default)
    if isinstance(e, ast.Call) and isinstance(e.func, ast.Attribute) and e.func.attr == "get" and \
            isinstance(e.func.value, ast.Name) and env.get(e.func.value.id) in K:
        d = e.func.value.id
        if e.keywords or len(e.args) not in (1, 2) or not (isinstance(e.args[0], ast.Constant)
                                                           and isinstance(e.args[0].value, str)):
            raise Unsupported(f"{d}.get with a key that is not a string literal")
        proj, ty = kw_field(tr, env[d], e.args[0].value)
        t = f"({proj} {cname(d)})"
        if len(e.args) == 1:
            return t, ty
        inner = opt_inner(ty)
        dflt, _ = tr.expr(e.args[1], env, inner)
        return f"(match {t} with Some v_ => v_ | None => {dflt} end)", inner
    # {"k": e, ..}: only where the expected type is a declared kwdict
    if isinstance(e, ast.Dict) and want in K:
        given = {}
        for k, v in zip(e.keys, e.values):
            if not (isinstance(k, ast.Constant) and isinstance(k.value, str)) or k.value in given:
                raise Unsupported("dict literal with a key that is not a distinct string literal")
            proj, ty = kw_field(tr, want, k.value)
            given[k.value] = tr.expr(v, env, opt_inner(ty))[0]
        comps = [(f"(Some {given[k]})" if k in given else "None") for k, _p, _t in K[want]["fields"]]
        return f"({K[want]['mk']} {' '.join(comps)})", want
    return None


def opt_inner(ty):
    if ty in pysrc.OPT:
        return pysrc.OPT[ty]
    if ty.startswith("O:"):
        return ty[2:]
    raise Unsupported(f"{ty} is not an option type")


def is_gen_opt(ty):
    return isinstance(ty, str) and ty.startswith("O:")


# ---------------------------------------------------------------------------------------------- isinstance
def isinstance_expr(tr, e, env, want):
    tbl = ext(tr).get("isinstance")
    if tbl is None:
        return None
    if not (isinstance(e, ast.Call) and isinstance(e.func, ast.Name) and e.func.id == "isinstance"
            and "isinstance" not in env and len(e.args) == 2 and not e.keywords):
        return None
    t, ty = tr.expr0(e.args[0], env)
    cls = ast.unparse(e.args[1])
    if tr.is_list(ty) and ty != "FS" and cls == "list":
        return "true", "B"
    key = ("L:*" if tr.is_list(ty) and ty != "FS" else ty, cls)
    if key in tbl:
        return ("true" if tbl[key] else "false"), "B"
    raise Unsupported(f"isinstance({ast.unparse(e.args[0])}, {cls}) for a value of type {ty}")


def mentions_isinstance(node):
    return any(isinstance(x, ast.Call) and isinstance(x.func, ast.Name) and x.func.id == "isinstance"
               for x in ast.walk(node))


# ---------------------------------------------------------------------------------------------- hooks
def coerce_hook(tr, text, ty, want, e, env):
    if not ext(tr):
        return None
    S = ext(tr).get("strs")
    if ty == "NONE" and is_gen_opt(want):
        return "None"
    if is_gen_opt(want) and want[2:] == ty:
        return f"(Some {text})"
    if S and ty == "O:" + S["type"] and want == "B" and S.get("truthy_opt"):
        return f"({S['truthy_opt']} {text})"
    if is_gen_opt(ty) and tr.is_list(ty[2:]) and want == "B":
        return f"(match {text} with Some v_ => nonempty v_ | None => false end)"      # truthiness of list | None
    if is_gen_opt(ty) and ty[2:] == want and e is not None and env is not None and pysrc.is_path(e) \
            and tr.known_some(e, env) and want in tr.defaults:
        # an Optional used at its underlying type under a not-None fact (as ozd / oivld)
        return f"(match {text} with Some v_ => v_ | None => {tr.defaults[want]} end)"
    return None


def const_dict_pairs(tr, name):
    """the (key, value) pairs of the module-level dict literal NAME: assigned exactly once, at module level, by
    a literal with constant keys and values, and never stored to / deleted / passed around elsewhere in the module"""
    mod = getattr(tr, "module", None)
    if mod is None:
        raise Unsupported("module source not available")
    defs = [n for n in mod.body if isinstance(n, (ast.Assign, ast.AnnAssign)) and
            any(isinstance(t, ast.Name) and t.id == name
                for t in (n.targets if isinstance(n, ast.Assign) else [n.target]))]
    if len(defs) != 1 or not isinstance(defs[0].value, ast.Dict):
        raise Unsupported(f"{name} is not assigned exactly once at module level by a dict literal")
    d = defs[0].value
    pairs = []
    for k, v in zip(d.keys, d.values):
        if not (isinstance(k, ast.Constant) and isinstance(v, ast.Constant)):
            raise Unsupported(f"{name} has a key or value that is not a constant")
        pairs.append((k.value, v.value))
    if len({k for k, _ in pairs}) != len(pairs):
        raise Unsupported(f"{name} repeats a key")
    # every other mention of the name only reads it: NAME.items() / NAME.get(..) / NAME[..] (load) / x in NAME
    parents = {}
    for n in ast.walk(mod):
        for c in ast.iter_child_nodes(n):
            parents[c] = n
    for n in ast.walk(mod):
        if isinstance(n, ast.Name) and n.id == name:
            p = parents.get(n)
            if p is defs[0]:
                continue
            ok = isinstance(n.ctx, ast.Load) and (
                (isinstance(p, ast.Attribute) and p.attr in ("items", "get", "keys", "values") and
                 isinstance(parents.get(p), ast.Call) and parents[p].func is p) or
                (isinstance(p, ast.Subscript) and p.value is n and isinstance(p.ctx, ast.Load)) or
                (isinstance(p, ast.Compare) and n in p.comparators and
                 all(isinstance(o, (ast.In, ast.NotIn)) for o in p.ops)))
            if not ok:
                raise Unsupported(f"{name} is used in a way that could change it")
        if isinstance(n, (ast.Global, ast.Nonlocal)) and name in n.names:
            raise Unsupported(f"{name} is declared global somewhere")
        if isinstance(n, (ast.FunctionDef, ast.Lambda)):
            a = n.args
            if name in [x.arg for x in a.posonlyargs + a.args + a.kwonlyargs] + \
                    [x.arg for x in (a.vararg, a.kwarg) if x is not None]:
                raise Unsupported(f"{name} is also a parameter name")
    return pairs


class _Subst(ast.NodeTransformer):
    def __init__(self, mapping):
        self.mapping = mapping

    def visit_Name(self, node):
        if node.id in self.mapping:
            if not isinstance(node.ctx, ast.Load):
                raise Unsupported(f"the loop variable {node.id} is assigned in the loop body")
            return ast.copy_location(copy.deepcopy(self.mapping[node.id]), node)
        return node


def unroll_items_loop(tr, s, pairs_nodes):
    """for k, v in D.items(): BODY  ->  BODY[k := k1, v := v1]; BODY[k := k2, v := v2]; ..."""
    if s.orelse or not (isinstance(s.target, ast.Tuple) and len(s.target.elts) == 2
                        and all(isinstance(t, ast.Name) for t in s.target.elts)
                        and s.target.elts[0].id != s.target.elts[1].id):
        raise Unsupported("shape of a loop over a constant dict")
    for sub in ast.walk(ast.Module(body=list(s.body), type_ignores=[])):
        if isinstance(sub, (ast.Break, ast.Continue, ast.Return, ast.Yield, ast.YieldFrom, ast.For, ast.While,
                            ast.FunctionDef, ast.Lambda, ast.Global, ast.Nonlocal, ast.Try, ast.With)):
            raise Unsupported(f"{type(sub).__name__} in an unrolled loop")
    kn, vn = s.target.elts[0].id, s.target.elts[1].id
    out = []
    for k, v in pairs_nodes:
        for b in s.body:
            out.append(ast.fix_missing_locations(_Subst({kn: k, vn: v}).visit(copy.deepcopy(b))))
    return out


def items_loop_source(tr, s, env):
    """the (key node, value node) pairs of `for k, v in X.items()` when X is a declared module-level constant
    dict or a local dict literal recorded by dictlit_assign; else None"""
    it = s.iter
    if not (isinstance(it, ast.Call) and isinstance(it.func, ast.Attribute) and it.func.attr == "items"
            and not it.args and not it.keywords and isinstance(it.func.value, ast.Name)):
        return None
    name = it.func.value.id
    if name in ext(tr).get("const_dicts", []) and name not in env:
        return [(ast.Constant(k), ast.Constant(v)) for k, v in const_dict_pairs(tr, name)]
    lits = env.get("$dictlit", {})
    if name in lits:
        return [(ast.Constant(k), copy.deepcopy(v)) for k, v in lits[name]]
    return None


def stmt_hook(tr, stmts, env, fin, ind):
    if not ext(tr):
        return None
    s, rest = stmts[0], list(stmts[1:])
    pad = "  " * ind
    if tr.sums and tr.needs_match(s, env) is not None:
        return None
    for f in FRAGMENT_STMTS:
        r = f(tr, s, rest, env, fin, ind)
        if r is not None:
            return r
    if isinstance(s, ast.For):
        pairs = items_loop_source(tr, s, env)
        if pairs is not None:
            if tr.loop_depth:
                raise Unsupported("unrolled loop inside a loop")
            return tr.block(unroll_items_loop(tr, s, pairs) + rest, env, fin, ind)
    if isinstance(s, ast.If):
        ref = tr.refine_name(s.test)
        if ref is not None and is_gen_opt(env.get(ref[0])) and ext(tr).get("opt_if"):
            if rest and tr.is_pure(s):
                return None                      # join_if comes back here with the `if` alone
            n, some_in_body = ref
            x = cname(n)
            inner = tr.bind(env, n, env[n][2:])
            some_blk, none_blk = (s.body, s.orelse) if some_in_body else (s.orelse, s.body)
            a = tr.block(list(some_blk) + rest, inner, fin, ind + 1)
            b = tr.block(list(none_blk) + rest, env, fin, ind + 1)
            return f"{pad}match {x} with\n{pad}| Some {x} =>\n{a}\n{pad}| None =>\n{b}\n{pad}end"
        if mentions_isinstance(s.test) and ext(tr).get("isinstance") is not None:
            c, _ = tr.expr(s.test, env, "B")
            if c in ("true", "false"):
                # a test decided by the declared types: only the branch that runs is translated
                live = s.body if c == "true" else s.orelse
                return tr.block(list(live) + rest, tr.refine(s.test, env, c == "true"), fin, ind)
    return None


FRAGMENT_STMTS = []          # statement handlers added further down: (tr, s, rest, env, fin, ind) -> text | None


# ---------------------------------------------------------------------------------------------- more expressions
def misc_exprs(tr, e, env, want):
    X = ext(tr)
    # set() / frozenset(): an empty collection of the expected element type
    if isinstance(e, ast.Call) and isinstance(e.func, ast.Name) and e.func.id in ("set", "frozenset") \
            and e.func.id not in env and not e.args and not e.keywords and X.get("empty_sets"):
        if e.func.id == "frozenset":
            return "(@nil Z)", "FS"
        if want is not None and tr.is_list(want):
            return f"(@nil {tr.coq_type(tr.item_of(want))})", want
        raise Unsupported("set() of unknown element type (declare the variable)")
    # frozenset(x) for an Optional list known not to be None here
    if isinstance(e, ast.Call) and isinstance(e.func, ast.Name) and e.func.id == "frozenset" and "frozenset" not in env \
            and len(e.args) == 1 and not e.keywords and X.get("empty_sets"):
        t, ty = tr.expr0(e.args[0], env)
        if ty == "O:L:Z" and pysrc.is_path(e.args[0]) and tr.known_some(e.args[0], env):
            return f"(fs_of_list (match {t} with Some v_ => v_ | None => [] end))", "FS"
        return None
    A = X.get("absstr")
    if A:
        if isinstance(e, ast.Call) and isinstance(e.func, ast.Name) and e.func.id == "len" and "len" not in env \
                and len(e.args) == 1 and not e.keywords:
            t, ty = tr.expr0(e.args[0], env)
            if ty == A["type"]:
                return f"({A['len']} {t})", "Z"
            return None
        if isinstance(e, ast.Subscript) and isinstance(e.slice, ast.Slice):
            t, ty = tr.expr0(e.value, env)
            if ty != A["type"]:
                raise Unsupported(f"slice of {ty}")
            sl = e.slice

            def neg_const(n):
                return isinstance(n, ast.UnaryOp) and isinstance(n.op, ast.USub) and isinstance(n.operand, ast.Constant) \
                    and isinstance(n.operand.value, int) and n.operand.value > 0
            if sl.step is None and sl.upper is None and neg_const(sl.lower):
                return f"({A['suffix']} {t} {sl.lower.operand.value})", A["type"]          # s[-k:]
            if sl.step is None and sl.lower is None and neg_const(sl.upper):
                return f"({A['drop_suffix']} {t} {sl.upper.operand.value})", A["type"]     # s[:-k]
            raise Unsupported("slice shape")
    K = X.get("kwdicts")
    if K and isinstance(e, ast.Call) and isinstance(e.func, ast.Name) and e.func.id == "__kwset__":
        # d["k"] = v  (rewritten by fragment_function): the record with that field set
        d, key, v = e.args
        if not (isinstance(key, ast.Constant) and isinstance(key.value, str)):
            raise Unsupported("subscript store with a key that is not a string literal")
        dt, dty = tr.expr0(d, env)
        if dty not in K:
            raise Unsupported(f"subscript store on {dty}")
        proj, fty = kw_field(tr, dty, key.value)
        vt, vty = tr.expr0(v, env, fty)
        if vty == fty:
            val = vt                     # an Optional value: a key bound to None reads like an absent key
        else:
            val = f"(Some {tr.coerce(vt, vty, opt_inner(fty), ast.unparse(v), v, env)})"
        if K[dty].get("set"):
            return f"({K[dty]['set'].format(key=key.value)} {dt} {val})", dty       # the model's field update
        comps = [(val if k == key.value else f"({pj} {dt})") for k, pj, _t in K[dty]["fields"]]
        return f"({K[dty]['mk']} {' '.join(comps)})", dty
    return None


def raising_call(tr, e, env):
    """a call the spec declares to raise ValueError for some arguments -> (coq text of an option, type) or None"""
    X = ext(tr)
    if not isinstance(e, ast.Call) or e.keywords or len(e.args) != 1:
        return None
    W = X.get("wd_call")
    if W and isinstance(e.func, ast.Name) and env.get(e.func.id) == W["type"]:
        a, _ = tr.expr(e.args[0], env, "Z")
        return f"({W['coq']} {cname(e.func.id)} {a})", W["type"]
    A = X.get("absstr")
    if A and A.get("int") and isinstance(e.func, ast.Name) and e.func.id == "int" and "int" not in env:
        t, ty = tr.expr0(e.args[0], env)
        if ty == A["type"]:
            return f"({A['int']} {t})", "Z"
    return None


def has_local_raising_call(tr, node, env):
    W = ext(tr).get("wd_call")
    return bool(W) and any(isinstance(x, ast.Call) and isinstance(x.func, ast.Name) and env.get(x.func.id) == W["type"]
                           for x in ast.walk(node))


def on_fail(tr, env, fin, pad):
    if env.get("$onraise") is not None:
        return env["$onraise"]
    return pad + "  " + fin(env, "raise", "ValueError")


_HARMLESS_FUNCS = {"str", "sorted", "repr"}
_HARMLESS_METHODS = {"get", "keys", "join"}


def message_only(stmt):
    """an assignment that can only feed the message of the `raise` that follows: a plain name bound to an
    expression built from names, constants, literals, str / sorted / repr, .get / .keys / .join"""
    if isinstance(stmt, ast.Assign):
        if len(stmt.targets) != 1 or not isinstance(stmt.targets[0], ast.Name):
            return False
        value = stmt.value
    elif isinstance(stmt, ast.AnnAssign) and stmt.value is not None and isinstance(stmt.target, ast.Name):
        value = stmt.value
    else:
        return False
    for n in ast.walk(value):
        if isinstance(n, (ast.Constant, ast.Name, ast.Load, ast.Dict, ast.List, ast.Tuple, ast.JoinedStr,
                          ast.FormattedValue)):
            continue
        if isinstance(n, ast.Attribute) and n.attr in _HARMLESS_METHODS:
            continue
        if isinstance(n, ast.Call) and not n.keywords and (
                (isinstance(n.func, ast.Name) and n.func.id in _HARMLESS_FUNCS) or
                (isinstance(n.func, ast.Attribute) and n.func.attr in _HARMLESS_METHODS)):
            continue
        return False
    return True


_ENDTRY = {}          # id(sentinel node) -> the enclosing failure continuation


def more_stmts(tr, s, rest, env, fin, ind):
    X = ext(tr)
    pad = "  " * ind
    # ---- end of a try body: back to the enclosing failure continuation
    if isinstance(s, ast.Expr) and isinstance(s.value, ast.Name) and s.value.id == "__endtry__":
        env2 = dict(env)
        env2["$onraise"] = _ENDTRY[id(s)]
        return tr.block(rest, env2, fin, ind)
    # ---- assignments that only feed the message of the raise that follows
    if X.get("skip_message_assigns") and message_only(s):
        k = 0
        stmts = [s] + rest
        while k < len(stmts) and message_only(stmts[k]):
            k += 1
        if k < len(stmts) and isinstance(stmts[k], ast.Raise):
            return tr.block(stmts[k:], env, fin, ind)
    # ---- a local dict literal that is only iterated (unrolled): remember its entries
    if isinstance(s, ast.Assign) and len(s.targets) == 1 and isinstance(s.targets[0], ast.Name) and \
            s.targets[0].id in X.get("dictlits", []) and isinstance(s.value, ast.Dict):
        pairs = []
        for k, v in zip(s.value.keys, s.value.values):
            if not (isinstance(k, ast.Constant) and isinstance(k.value, str)) or k.value in [a for a, _ in pairs]:
                raise Unsupported("dict literal with a key that is not a distinct string literal")
            if not (isinstance(v, ast.Name) and v.id in getattr(tr, "rec_never_assigned", ())):
                raise Unsupported("dict literal with a value that is not a never-assigned parameter")
            pairs.append((k.value, v))
        if tr.loop_depth:
            raise Unsupported("dict literal inside a loop")
        env2 = dict(env)
        env2["$dictlit"] = dict(env.get("$dictlit", {}), **{s.targets[0].id: pairs})
        return tr.block(rest, env2, fin, ind)
    # ---- x = <raising call>
    if isinstance(s, ast.Assign) and len(s.targets) == 1 and isinstance(s.targets[0], ast.Name):
        rc = raising_call(tr, s.value, env)
        if rc is not None:
            t, ty = rc
            x = s.targets[0].id
            env2 = tr.bind(env, x, ty)
            ok = tr.block(rest, env2, fin, ind + 1)
            return (f"{pad}match {t} with\n{pad}| Some v_ =>\n{pad}  let {cname(x)} := v_ in\n{ok}\n"
                    f"{pad}| None =>\n{on_fail(tr, env, fin, pad)}\n{pad}end")
    # ---- L.append(<raising call>)
    if isinstance(s, ast.Expr) and isinstance(s.value, ast.Call) and isinstance(s.value.func, ast.Attribute) and \
            s.value.func.attr == "append" and isinstance(s.value.func.value, ast.Name) and len(s.value.args) == 1 \
            and not s.value.keywords:
        rc = raising_call(tr, s.value.args[0], env)
        if rc is not None:
            t, ty = rc
            lst = s.value.func.value.id
            if lst not in env or not tr.is_list(env[lst]) or tr.item_of(env[lst]) != ty:
                raise Unsupported(f"append of {ty} to {lst}")
            env2 = tr.bind(env, lst, env[lst])
            ok = tr.block(rest, env2, fin, ind + 1)
            return (f"{pad}match {t} with\n{pad}| Some v_ =>\n{pad}  let {cname(lst)} := ({cname(lst)} ++ [v_]) in\n{ok}\n"
                    f"{pad}| None =>\n{on_fail(tr, env, fin, pad)}\n{pad}end")
    # ---- try: BODY except ValueError: H      (BODY raises only through the declared raising calls)
    if isinstance(s, ast.Try) and X.get("try_value_error"):
        if s.orelse or s.finalbody or len(s.handlers) != 1:
            return None
        h = s.handlers[0]
        if h.name is not None or not isinstance(h.type, ast.Name) or h.type.id != "ValueError":
            return None
        for b in s.body:
            for sub in ast.walk(b):
                if isinstance(sub, (ast.For, ast.While, ast.Try, ast.Raise, ast.Return, ast.Yield, ast.YieldFrom,
                                    ast.With, ast.FunctionDef, ast.Lambda)):
                    raise Unsupported(f"{type(sub).__name__} in a try body")
        hb = tr.block(list(h.body) + rest, env, fin, ind + 1)
        sentinel = ast.Expr(value=ast.Name(id="__endtry__", ctx=ast.Load()))
        _ENDTRY[id(sentinel)] = env.get("$onraise")
        tr._rec_keep = getattr(tr, "_rec_keep", []) + [sentinel]        # (keeps id() unique while translating)
        env2 = dict(env)
        env2["$onraise"] = hb
        return tr.block(list(s.body) + [sentinel] + rest, env2, fin, ind)
    # ---- flow typing: a variable declared Optional[T] that is assigned a T is a T from here on
    if isinstance(s, (ast.Assign, ast.AnnAssign)) and s.value is not None and X.get("opt_if"):
        tg = s.targets[0] if isinstance(s, ast.Assign) and len(s.targets) == 1 else getattr(s, "target", None)
        if isinstance(tg, ast.Name) and not (isinstance(s.value, ast.Constant) and s.value.value is None):
            decl = None
            if isinstance(s, ast.AnnAssign):
                decl = tr.annotations.get(ast.unparse(s.annotation))
            decl = decl or tr.declared.get(tg.id)
            if is_gen_opt(decl) and not (tr.sums and tr.needs_match(s, env) is not None):
                t, ty = tr.expr0(s.value, env)
                if ty == decl[2:]:
                    tr.declared[tg.id] = decl
                    return tr.assign(tg.id, t, ty, env, pad, rest, fin, ind)
    if isinstance(s, ast.If):
        # ---- if A is not None and B is not None: nested matches
        t = s.test
        if isinstance(t, ast.BoolOp) and isinstance(t.op, ast.And) and X.get("opt_if"):
            refs = [tr.refine_name(v) for v in t.values]
            if all(r is not None and r[1] and (is_gen_opt(env.get(r[0])) or env.get(r[0]) in pysrc.OPT) for r in refs) \
                    and len({r[0] for r in refs}) == len(refs):
                if rest and tr.is_pure(s):
                    return None

                def nest(names, env_, ind_):
                    if not names:
                        return tr.block(list(s.body) + rest, env_, fin, ind_)
                    n = names[0]
                    p = "  " * ind_
                    inner = tr.bind(env_, n, opt_inner(env_[n]))
                    a = nest(names[1:], inner, ind_ + 1)
                    b = tr.block(list(s.orelse) + rest, env_, fin, ind_ + 1)
                    return f"{p}match {cname(n)} with\n{p}| Some {cname(n)} =>\n{a}\n{p}| None =>\n{b}\n{p}end"
                return nest([r[0] for r in refs], env, ind)
        # ---- an `if` whose branches may raise through a local callable: never the join form
        if rest and has_local_raising_call(tr, s, env) and tr.is_pure(s):
            saved = tr.is_pure
            tr.is_pure = lambda x: False if x is s else saved(x)
            try:
                return tr.if_stmt(s, rest, env, fin, ind)
            finally:
                del tr.is_pure
    return None


FRAGMENT_STMTS.append(more_stmts)


# ---------------------------------------------------------------------------------------------- fragments
def top_statements(fdef):
    return [x for x in fdef.body
            if not (isinstance(x, ast.Expr) and isinstance(x.value, ast.Constant) and isinstance(x.value.value, str))]


def locate(top, prefix):
    hits = [i for i, x in enumerate(top) if ast.unparse(x).split("\n")[0].startswith(prefix)]
    if len(hits) != 1:
        raise Unsupported(f"fragment boundary `{prefix}` matches {len(hits)} top-level statements")
    return hits[0]


def tiling_ranges(fdef, tiling):
    """the statement ranges [(i, j)] of the fragments; they must follow one another and cover the whole body"""
    top = top_statements(fdef)
    ranges = [(locate(top, a), locate(top, b)) for a, b in tiling]
    nxt = 0
    for i, j in ranges:
        if i != nxt or j < i:
            raise Unsupported("the fragments do not tile the function body")
        nxt = j + 1
    if nxt != len(top):
        raise Unsupported("the fragments do not cover the whole function body")
    return top, ranges


class _SelfToLocal(ast.NodeTransformer):
    """self.X -> the local name self_X, for the attributes the fragment spec lists"""
    def __init__(self, attrs):
        self.attrs = attrs

    def visit_Attribute(self, node):
        self.generic_visit(node)
        if isinstance(node.value, ast.Name) and node.value.id == "self" and node.attr in self.attrs:
            return ast.copy_location(ast.Name(id="self_" + node.attr, ctx=node.ctx), node)
        return node


class _Rewrites(ast.NodeTransformer):
    """X.add(e) -> X.append(e) for the declared set variables;  D["k"] = e -> D = __kwset__(D, "k", e) for the
    declared kwdict variables"""
    def __init__(self, sets, kwlocals):
        self.sets, self.kwlocals = sets, kwlocals

    def visit_Call(self, node):
        self.generic_visit(node)
        if isinstance(node.func, ast.Attribute) and node.func.attr == "add" and isinstance(node.func.value, ast.Name) \
                and node.func.value.id in self.sets:
            node.func.attr = "append"
        return node

    def visit_Assign(self, node):
        self.generic_visit(node)
        if len(node.targets) == 1 and isinstance(node.targets[0], ast.Subscript) and \
                isinstance(node.targets[0].value, ast.Name) and node.targets[0].value.id in self.kwlocals:
            d = node.targets[0].value.id
            key = node.targets[0].slice
            return ast.copy_location(ast.Assign(
                targets=[ast.Name(id=d, ctx=ast.Store())],
                value=ast.Call(func=ast.Name(id="__kwset__", ctx=ast.Load()),
                               args=[ast.Name(id=d, ctx=ast.Load()), key, node.value], keywords=[])), node)
        return node


def stored_names(nodes):
    out = set()
    for n in nodes:
        for x in ast.walk(n):
            if isinstance(x, ast.Name) and isinstance(x.ctx, (ast.Store, ast.Del)):
                out.add(x.id)
            if isinstance(x, (ast.FunctionDef, ast.Lambda, ast.ClassDef, ast.Global, ast.Nonlocal, ast.NamedExpr)):
                raise Unsupported(f"{type(x).__name__} in a function translated by fragments")
    return out


def loaded_names(nodes):
    return {x.id for n in nodes for x in ast.walk(n) if isinstance(x, ast.Name) and isinstance(x.ctx, ast.Load)}


def prepared_body(tr, fdef, fr):
    """(all top-level statements after the rewrites, the ranges)"""
    top, ranges = tiling_ranges(fdef, fr["tiling"])
    top = [copy.deepcopy(x) for x in top]
    for x in top:
        for sub in ast.walk(x):
            if isinstance(sub, ast.Name) and (sub.id.startswith("self_") or sub.id in ("__kwset__", "__endtry__")):
                raise Unsupported(f"the function uses the name {sub.id}")
    st = _SelfToLocal(set(fr.get("self_locals", [])))
    rw = _Rewrites(set(fr.get("sets", [])), set(fr.get("kwlocals", [])))
    top = [ast.fix_missing_locations(rw.visit(st.visit(x))) for x in top]
    return top, ranges


def python_params(fdef):
    a = fdef.args
    return [x.arg for x in a.posonlyargs + a.args + a.kwonlyargs] + [x.arg for x in (a.vararg, a.kwarg) if x is not None]


def fragment_function(tr, fdef):
    """Translate a run of consecutive top-level statements of a function as a function of its own.
    spec["rec_ext"]["fragment"] = dict(tiling=[(first, last), ..] (prefixes of the first line of the first / last
    statement of EVERY fragment of the function: they must tile the body), index=i, outs=[names],
    self_locals=[attributes read as the locals self_<attr>], sets=[..], kwlocals=[..]).
    The inputs are the typed parameters of the spec (function parameters, or variables earlier fragments bind);
    the result is the tuple of `outs`."""
    fr = ext(tr)["fragment"]
    top, ranges = prepared_body(tr, fdef, fr)
    i, j = ranges[fr["index"]]
    body = top[i:j + 1]
    tr.rec_never_assigned = set(python_params(fdef)) - stored_names(top) - {"self"}
    outs = fr["outs"]
    if outs:
        val = ast.Name(id=outs[0], ctx=ast.Load()) if len(outs) == 1 else \
            ast.Tuple(elts=[ast.Name(id=n, ctx=ast.Load()) for n in outs], ctx=ast.Load())
    else:
        val = ast.Constant(True)
    body.append(ast.Return(value=val))
    names = [n for n, t in tr.spec["params"] if n.isidentifier() and tr.is_type(t)]
    new = ast.FunctionDef(name=fdef.name, args=ast.arguments(posonlyargs=[], args=[ast.arg(arg=n) for n in names],
                                                             kwonlyargs=[], kw_defaults=[], defaults=[]),
                          body=body, decorator_list=[], returns=None, type_comment=None, type_params=[])
    return ast.fix_missing_locations(new)


def seq_function(tr, fdef):
    """The function as the sequence of its fragments:  r1 = frag1(inputs); out = r1[k]; ...; return (finals).
    spec["rec_ext"]["seq"] = dict(tiling=.., parts=[(call name, [input names], [output names])], finals=[names],
    self_locals=.., sets=.., kwlocals=..).  Checked here, on the source: every input of a fragment is a
    parameter of the function that no statement assigns, or an output of the LAST earlier fragment that assigns
    it; so no fragment reads a variable whose current value an earlier fragment computed without handing it on."""
    sq = ext(tr)["seq"]
    top, ranges = prepared_body(tr, fdef, sq)
    if len(ranges) != len(sq["parts"]):
        raise Unsupported("one part per fragment")
    params = set(python_params(fdef)) - {"self"}
    assigned_by = [stored_names(top[i:j + 1]) for i, j in ranges]
    body = []
    for k, (call, ins, outs) in enumerate(sq["parts"]):
        i, j = ranges[k]
        reads = loaded_names(top[i:j + 1])
        for x in ins:
            last = [m for m in range(k) if x in assigned_by[m]]
            if last:
                if x not in sq["parts"][last[-1]][2]:
                    raise Unsupported(f"{x} is assigned by fragment {last[-1]} but not handed on")
            elif x not in params:
                raise Unsupported(f"fragment {k} reads {x}, which nothing before it binds")
        # everything the fragment reads and an earlier fragment assigned must be among its inputs
        for x in reads:
            if any(x in assigned_by[m] for m in range(k)) and x not in ins and x not in assigned_by[k]:
                raise Unsupported(f"fragment {k} reads {x} (bound by an earlier fragment) but does not take it")
        for x in outs:
            if x not in assigned_by[k]:
                raise Unsupported(f"fragment {k} does not assign its output {x}")
        r = f"part{k}_"
        body.append(ast.Assign(targets=[ast.Name(id=r, ctx=ast.Store())],
                               value=ast.Call(func=ast.Name(id=call, ctx=ast.Load()),
                                              args=[ast.Name(id=x, ctx=ast.Load()) for x in ins], keywords=[])))
        if len(outs) == 1:
            body.append(ast.Assign(targets=[ast.Name(id=outs[0], ctx=ast.Store())], value=ast.Name(id=r, ctx=ast.Load())))
        else:
            for n, x in enumerate(outs):
                body.append(ast.Assign(targets=[ast.Name(id=x, ctx=ast.Store())],
                                       value=ast.Subscript(value=ast.Name(id=r, ctx=ast.Load()),
                                                           slice=ast.Constant(n), ctx=ast.Load())))
    for x in sq["finals"]:
        last = [m for m in range(len(ranges)) if x in assigned_by[m]]
        if not last or x not in sq["parts"][last[-1]][2]:
            raise Unsupported(f"the final value of {x} is not handed on by the last fragment that assigns it")
    body.append(ast.Return(value=ast.Tuple(elts=[ast.Name(id=x, ctx=ast.Load()) for x in sq["finals"]], ctx=ast.Load())))
    names = [n for n, t in tr.spec["params"] if n.isidentifier() and tr.is_type(t)]
    new = ast.FunctionDef(name=fdef.name, args=ast.arguments(posonlyargs=[], args=[ast.arg(arg=n) for n in names],
                                                             kwonlyargs=[], kw_defaults=[], defaults=[]),
                          body=body, decorator_list=[], returns=None, type_comment=None, type_params=[])
    return ast.fix_missing_locations(new)


def check_imports(tr, wanted):
    """the module binds each name by `from MODULE import NAME` (no alias) and by nothing else at module level"""
    mod = getattr(tr, "module", None)
    if mod is None:
        raise Unsupported("module source not available")
    for module, name in wanted:
        ok = False
        for n in mod.body:
            if isinstance(n, ast.ImportFrom) and n.module == module and n.level == 0 and \
                    any(a.name == name and a.asname is None for a in n.names):
                ok = True
            elif isinstance(n, (ast.Import, ast.ImportFrom)):
                if any((a.asname or a.name.split(".")[0]) == name for a in n.names):
                    raise Unsupported(f"the module binds {name} by another import")
            elif isinstance(n, (ast.FunctionDef, ast.ClassDef, ast.AsyncFunctionDef)) and n.name == name:
                raise Unsupported(f"the module defines {name}")
            elif isinstance(n, (ast.Assign, ast.AnnAssign, ast.AugAssign)):
                tg = n.targets if isinstance(n, ast.Assign) else [n.target]
                if any(isinstance(x, ast.Name) and x.id == name for t in tg for x in ast.walk(t)):
                    raise Unsupported(f"the module assigns {name}")
        if not ok:
            raise Unsupported(f"the module does not say `from {module} import {name}`")


def func_hook(tr, fdef):
    if not ext(tr):
        return fdef
    if ext(tr).get("imports"):
        check_imports(tr, ext(tr)["imports"])
    if ext(tr).get("fragment"):
        return fragment_function(tr, fdef)
    if ext(tr).get("seq"):
        return seq_function(tr, fdef)
    return fdef


def expr_hook(tr, e, env, want):
    if not ext(tr):
        return None
    for f in (str_exprs, kw_exprs, isinstance_expr, misc_exprs):
        r = f(tr, e, env, want)
        if r is not None:
            return r
    return None


pysrc.REC_EXPR_HOOKS.append(expr_hook)
pysrc.REC_STMT_HOOKS.append(stmt_hook)
pysrc.REC_COERCE_HOOKS.append(coerce_hook)
pysrc.REC_FUNC_HOOKS.append(func_hook)
