"""Tie C, third extension (tag: rec): constructs needed by the text and the constructor of
calgebra/recurrence.py.  Registered as handlers of pysrc.py (REC_*_HOOKS); every handler is consulted only
for a spec with a "rec_ext" entry and returns None when it does not apply.  Fail-closed like the rest:
whatever is not fully understood raises Unsupported.

spec["rec_ext"] may declare (see srcspecs_rec.py for the TRUSTED readings each one stands for):
   strs        dict(type, lits={literal text: coq}, of={type: coq function to text}, cat, join, truthy_opt)
               strings are values of the spec type `type`; f"..{e}.." is the concatenation (cat) of its literal
               pieces (each must be in lits) and of the text of its values; sep.join(xs) = join lits[sep] xs;
               str(n) / map(str, ns) for ints
   kwdicts     type -> dict(mk=constructor, fields=[(key, projection, type O:T)])
               a dict with known string keys, each present or not: d.get("k") = projection (an option),
               d.get("k", default), {"k": e, ..} = constructor, d["k"] = e = the record with that field Some e
   isinstance  {(type, class text): True | False}     isinstance(x, C) for x of that type (lists: "list" is built in)
   const_dicts [names]  module-level dict literals with constant keys and values, assigned once and only read:
               `for k, v in NAME.items():` is unrolled over the literal, in its order
   opt_if      generic Optional values (types "O:T"): `if x is None` / `if x is not None` on a plain name becomes a
               match that rebinds the name at the underlying type
   fragment    see fragment_function()
"""
from __future__ import annotations

import ast
import copy

from . import pysrc
from .pysrc import Unsupported, cname


def ext(tr):
    return tr.spec.get("rec_ext")


# ---------------------------------------------------------------------------------------------- strings
def _lit(tr, s):
    S = ext(tr)["strs"]
    if s not in S["lits"]:
        raise Unsupported(f"string literal {s!r} has no declared token reading")
    return S["lits"][s]


def fstring(tr, e, env):
    """f"..{e}.." -> cat of the readings of its pieces (adjacent literal pieces are one literal)"""
    S = ext(tr)["strs"]
    pieces = []                      # ("lit", python str) | ("val", coq text)
    for v in e.values:
        if isinstance(v, ast.Constant) and isinstance(v.value, str):
            pieces.append(("lit", v.value))
        elif isinstance(v, ast.FormattedValue):
            if v.conversion != -1 or v.format_spec is not None:
                raise Unsupported("f-string conversion / format spec")
            if isinstance(v.value, ast.Constant) and isinstance(v.value.value, str):
                pieces.append(("lit", v.value.value))        # (a loop constant of an unrolled loop)
                continue
            t, ty = tr.expr0(v.value, env)
            if ty == "OZ":
                t, ty = tr.expr(v.value, env, "Z")           # only under a not-None fact
            elif ty == "O:" + S["type"]:
                t, ty = tr.expr(v.value, env, S["type"])
            if ty == S["type"]:
                pieces.append(("val", t))
            elif ty in S["of"]:
                pieces.append(("val", f"({S['of'][ty]} {t})"))
            else:
                raise Unsupported(f"f-string value of type {ty}")
        else:
            raise Unsupported("f-string piece")
    merged = []
    for k, v in pieces:
        if k == "lit" and merged and merged[-1][0] == "lit":
            merged[-1] = ("lit", merged[-1][1] + v)
        else:
            merged.append((k, v))
    texts = [(_lit(tr, v) if k == "lit" else v) for k, v in merged if not (k == "lit" and v == "")]
    if not texts:
        raise Unsupported("empty f-string")
    out = texts[-1]
    for t in reversed(texts[:-1]):
        out = f"({S['cat']} {t} {out})"
    return out, S["type"]


def str_exprs(tr, e, env, want):
    S = ext(tr).get("strs")
    if not S:
        return None
    if isinstance(e, ast.JoinedStr):
        return fstring(tr, e, env)
    if isinstance(e, ast.Constant) and isinstance(e.value, str) and want == S["type"]:
        return _lit(tr, e.value), S["type"]
    if isinstance(e, ast.Call) and isinstance(e.func, ast.Attribute) and e.func.attr == "join" and \
            isinstance(e.func.value, ast.Constant) and isinstance(e.func.value.value, str):
        if len(e.args) != 1 or e.keywords:
            raise Unsupported("call shape of str.join")
        xs, ty = tr.expr0(e.args[0], env)
        if not tr.same(ty, "L:" + S["type"]):
            raise Unsupported(f"join of {ty}")
        return f"({S['join']} {_lit(tr, e.func.value.value)} {xs})", S["type"]
    if isinstance(e, ast.Call) and isinstance(e.func, ast.Name) and e.func.id == "str" and "str" not in env \
            and len(e.args) == 1 and not e.keywords:
        t, ty = tr.expr0(e.args[0], env)
        if ty == S["type"]:
            return t, ty
        if ty in S["of"]:
            return f"({S['of'][ty]} {t})", S["type"]
        raise Unsupported(f"str() of {ty}")
    if isinstance(e, ast.Call) and isinstance(e.func, ast.Name) and e.func.id == "map" and "map" not in env \
            and len(e.args) == 2 and not e.keywords and isinstance(e.args[0], ast.Name) and e.args[0].id == "str" \
            and "str" not in env:
        xs, ty = tr.expr0(e.args[1], env)
        if not tr.is_list(ty) or tr.item_of(ty) not in S["of"]:
            raise Unsupported(f"map(str, ..) over {ty}")
        return f"(map {S['of'][tr.item_of(ty)]} {xs})", "L:" + S["type"]
    return None


# ---------------------------------------------------------------------------------------------- kwdicts
def kw_field(tr, dty, key):
    for k, proj, ty in ext(tr)["kwdicts"][dty]["fields"]:
        if k == key:
            return proj, ty
    raise Unsupported(f"key {key!r} is not a declared key of {dty}")


def kw_exprs(tr, e, env, want):
    K = ext(tr).get("kwdicts")
    if not K:
        return None
    # d.get("k") / d.get("k", default)
    if isinstance(e, ast.Call) and isinstance(e.func, ast.Attribute) and e.func.attr == "get" and \
            isinstance(e.func.value, ast.Name) and env.get(e.func.value.id) in K:
        d = e.func.value.id
        if e.keywords or len(e.args) not in (1, 2) or not (isinstance(e.args[0], ast.Constant)
                                                           and isinstance(e.args[0].value, str)):
            raise Unsupported(f"{d}.get with a key that is not a string literal")
        proj, ty = kw_field(tr, env[d], e.args[0].value)
        t = f"({proj} {cname(d)})"
        if len(e.args) == 1:
            return t, ty
        inner = opt_inner(ty)
        dflt, _ = tr.expr(e.args[1], env, inner)
        return f"(match {t} with Some v_ => v_ | None => {dflt} end)", inner
    # {"k": e, ..}: only where the expected type is a declared kwdict
    if isinstance(e, ast.Dict) and want in K:
        given = {}
        for k, v in zip(e.keys, e.values):
            if not (isinstance(k, ast.Constant) and isinstance(k.value, str)) or k.value in given:
                raise Unsupported("dict literal with a key that is not a distinct string literal")
            proj, ty = kw_field(tr, want, k.value)
            given[k.value] = tr.expr(v, env, opt_inner(ty))[0]
        comps = [(f"(Some {given[k]})" if k in given else "None") for k, _p, _t in K[want]["fields"]]
        return f"({K[want]['mk']} {' '.join(comps)})", want
    return None


def opt_inner(ty):
    if ty in pysrc.OPT:
        return pysrc.OPT[ty]
    if ty.startswith("O:"):
        return ty[2:]
    raise Unsupported(f"{ty} is not an option type")


def is_gen_opt(ty):
    return isinstance(ty, str) and ty.startswith("O:")


# ---------------------------------------------------------------------------------------------- isinstance
def isinstance_expr(tr, e, env, want):
    tbl = ext(tr).get("isinstance")
    if tbl is None:
        return None
    if not (isinstance(e, ast.Call) and isinstance(e.func, ast.Name) and e.func.id == "isinstance"
            and "isinstance" not in env and len(e.args) == 2 and not e.keywords):
        return None
    t, ty = tr.expr0(e.args[0], env)
    cls = ast.unparse(e.args[1])
    if tr.is_list(ty) and ty != "FS" and cls == "list":
        return "true", "B"
    key = ("L:*" if tr.is_list(ty) and ty != "FS" else ty, cls)
    if key in tbl:
        return ("true" if tbl[key] else "false"), "B"
    raise Unsupported(f"isinstance({ast.unparse(e.args[0])}, {cls}) for a value of type {ty}")


def mentions_isinstance(node):
    return any(isinstance(x, ast.Call) and isinstance(x.func, ast.Name) and x.func.id == "isinstance"
               for x in ast.walk(node))


# ---------------------------------------------------------------------------------------------- hooks
def expr_hook(tr, e, env, want):
    if not ext(tr):
        return None
    for f in (str_exprs, kw_exprs, isinstance_expr):
        r = f(tr, e, env, want)
        if r is not None:
            return r
    return None


def coerce_hook(tr, text, ty, want, e, env):
    if not ext(tr):
        return None
    S = ext(tr).get("strs")
    if ty == "NONE" and is_gen_opt(want):
        return "None"
    if is_gen_opt(want) and want[2:] == ty:
        return f"(Some {text})"
    if S and ty == "O:" + S["type"] and want == "B" and S.get("truthy_opt"):
        return f"({S['truthy_opt']} {text})"
    if is_gen_opt(ty) and ty[2:] == want and e is not None and env is not None and pysrc.is_path(e) \
            and tr.known_some(e, env) and want in tr.defaults:
        # an Optional used at its underlying type under a not-None fact (as ozd / oivld)
        return f"(match {text} with Some v_ => v_ | None => {tr.defaults[want]} end)"
    return None


def const_dict_pairs(tr, name):
    """the (key, value) pairs of the module-level dict literal NAME: assigned exactly once, at module level, by
    a literal with constant keys and values, and never stored to / deleted / passed around elsewhere in the module"""
    mod = getattr(tr, "module", None)
    if mod is None:
        raise Unsupported("module source not available")
    defs = [n for n in mod.body if isinstance(n, (ast.Assign, ast.AnnAssign)) and
            any(isinstance(t, ast.Name) and t.id == name
                for t in (n.targets if isinstance(n, ast.Assign) else [n.target]))]
    if len(defs) != 1 or not isinstance(defs[0].value, ast.Dict):
        raise Unsupported(f"{name} is not assigned exactly once at module level by a dict literal")
    d = defs[0].value
    pairs = []
    for k, v in zip(d.keys, d.values):
        if not (isinstance(k, ast.Constant) and isinstance(v, ast.Constant)):
            raise Unsupported(f"{name} has a key or value that is not a constant")
        pairs.append((k.value, v.value))
    if len({k for k, _ in pairs}) != len(pairs):
        raise Unsupported(f"{name} repeats a key")
    # every other mention of the name only reads it: NAME.items() / NAME.get(..) / NAME[..] (load) / x in NAME
    parents = {}
    for n in ast.walk(mod):
        for c in ast.iter_child_nodes(n):
            parents[c] = n
    for n in ast.walk(mod):
        if isinstance(n, ast.Name) and n.id == name:
            p = parents.get(n)
            if p is defs[0]:
                continue
            ok = isinstance(n.ctx, ast.Load) and (
                (isinstance(p, ast.Attribute) and p.attr in ("items", "get", "keys", "values") and
                 isinstance(parents.get(p), ast.Call) and parents[p].func is p) or
                (isinstance(p, ast.Subscript) and p.value is n and isinstance(p.ctx, ast.Load)) or
                (isinstance(p, ast.Compare) and n in p.comparators and
                 all(isinstance(o, (ast.In, ast.NotIn)) for o in p.ops)))
            if not ok:
                raise Unsupported(f"{name} is used in a way that could change it")
        if isinstance(n, (ast.Global, ast.Nonlocal)) and name in n.names:
            raise Unsupported(f"{name} is declared global somewhere")
        if isinstance(n, (ast.FunctionDef, ast.Lambda)):
            a = n.args
            if name in [x.arg for x in a.posonlyargs + a.args + a.kwonlyargs] + \
                    [x.arg for x in (a.vararg, a.kwarg) if x is not None]:
                raise Unsupported(f"{name} is also a parameter name")
    return pairs


class _Subst(ast.NodeTransformer):
    def __init__(self, mapping):
        self.mapping = mapping

    def visit_Name(self, node):
        if node.id in self.mapping:
            if not isinstance(node.ctx, ast.Load):
                raise Unsupported(f"the loop variable {node.id} is assigned in the loop body")
            return ast.copy_location(copy.deepcopy(self.mapping[node.id]), node)
        return node


def unroll_items_loop(tr, s, pairs_nodes):
    """for k, v in D.items(): BODY  ->  BODY[k := k1, v := v1]; BODY[k := k2, v := v2]; ..."""
    if s.orelse or not (isinstance(s.target, ast.Tuple) and len(s.target.elts) == 2
                        and all(isinstance(t, ast.Name) for t in s.target.elts)
                        and s.target.elts[0].id != s.target.elts[1].id):
        raise Unsupported("shape of a loop over a constant dict")
    for sub in ast.walk(ast.Module(body=list(s.body), type_ignores=[])):
        if isinstance(sub, (ast.Break, ast.Continue, ast.Return, ast.Yield, ast.YieldFrom, ast.For, ast.While,
                            ast.FunctionDef, ast.Lambda, ast.Global, ast.Nonlocal, ast.Try, ast.With)):
            raise Unsupported(f"{type(sub).__name__} in an unrolled loop")
    kn, vn = s.target.elts[0].id, s.target.elts[1].id
    out = []
    for k, v in pairs_nodes:
        for b in s.body:
            out.append(ast.fix_missing_locations(_Subst({kn: k, vn: v}).visit(copy.deepcopy(b))))
    return out


def items_loop_source(tr, s, env):
    """the (key node, value node) pairs of `for k, v in X.items()` when X is a declared module-level constant
    dict or a local dict literal recorded by dictlit_assign; else None"""
    it = s.iter
    if not (isinstance(it, ast.Call) and isinstance(it.func, ast.Attribute) and it.func.attr == "items"
            and not it.args and not it.keywords and isinstance(it.func.value, ast.Name)):
        return None
    name = it.func.value.id
    if name in ext(tr).get("const_dicts", []) and name not in env:
        return [(ast.Constant(k), ast.Constant(v)) for k, v in const_dict_pairs(tr, name)]
    lits = env.get("$dictlit", {})
    if name in lits:
        return [(ast.Constant(k), copy.deepcopy(v)) for k, v in lits[name]]
    return None


def stmt_hook(tr, stmts, env, fin, ind):
    if not ext(tr):
        return None
    s, rest = stmts[0], list(stmts[1:])
    pad = "  " * ind
    if tr.sums and tr.needs_match(s, env) is not None:
        return None
    for f in FRAGMENT_STMTS:
        r = f(tr, s, rest, env, fin, ind)
        if r is not None:
            return r
    if isinstance(s, ast.For):
        pairs = items_loop_source(tr, s, env)
        if pairs is not None:
            if tr.loop_depth:
                raise Unsupported("unrolled loop inside a loop")
            return tr.block(unroll_items_loop(tr, s, pairs) + rest, env, fin, ind)
    if isinstance(s, ast.If):
        ref = tr.refine_name(s.test)
        if ref is not None and is_gen_opt(env.get(ref[0])) and ext(tr).get("opt_if"):
            if rest and tr.is_pure(s):
                return None                      # join_if comes back here with the `if` alone
            n, some_in_body = ref
            x = cname(n)
            inner = tr.bind(env, n, env[n][2:])
            some_blk, none_blk = (s.body, s.orelse) if some_in_body else (s.orelse, s.body)
            a = tr.block(list(some_blk) + rest, inner, fin, ind + 1)
            b = tr.block(list(none_blk) + rest, env, fin, ind + 1)
            return f"{pad}match {x} with\n{pad}| Some {x} =>\n{a}\n{pad}| None =>\n{b}\n{pad}end"
        if mentions_isinstance(s.test) and ext(tr).get("isinstance") is not None:
            c, _ = tr.expr(s.test, env, "B")
            if c in ("true", "false"):
                # a test decided by the declared types: only the branch that runs is translated
                live = s.body if c == "true" else s.orelse
                return tr.block(list(live) + rest, tr.refine(s.test, env, c == "true"), fin, ind)
    return None


FRAGMENT_STMTS = []          # statement handlers added further down: (tr, s, rest, env, fin, ind) -> text | None


def func_hook(tr, fdef):
    if not ext(tr):
        return fdef
    if ext(tr).get("fragment"):
        return fragment_function(tr, fdef)
    return fdef


def fragment_function(tr, fdef):
    raise Unsupported("fragment")


pysrc.REC_EXPR_HOOKS.append(expr_hook)
pysrc.REC_STMT_HOOKS.append(stmt_hook)
pysrc.REC_COERCE_HOOKS.append(coerce_hook)
pysrc.REC_FUNC_HOOKS.append(func_hook)
