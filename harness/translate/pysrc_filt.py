"""Tie C, third extension (tag "filt"): the constructs of calgebra/properties.py and of the Filter /
operator-dispatch code of calgebra/core.py that pysrc.py does not have.  Only specs that say
filt_ext=True reach this module (pysrc.py calls filt_expr at the top of Tr.expr0, filt_stmt at the top of
Tr.block and filt_prepare on the function definition before it is translated).  Everything is fail-closed:
a handler either recognises a shape completely or raises Unsupported / declines (returns None, and the
ordinary translator — which does not know the construct — rejects it).

Constructs (each is a reading of Python semantics: see the TRUSTED readings of srcspecs_filt.py):

  sum-typed attributes (spec "sumattrs": source path -> dict(param, ctors, exprs, methods)).
      `A if isinstance(self.left, Property) else B`, self.left : PROP + VAL
                         (match self_left with | inl self_left_p => [A knowing inl] | inr self_left_v => [B ..] end)
      A conditional expression whose test mentions such an attribute becomes a `match` on it; in each arm
      the test must evaluate to a constant (the spec's table: source text of a test -> true / false per
      constructor) and only the branch that runs is translated.  Under a known constructor, `path` itself
      and `path.m(args)` are what the spec's tables give for that constructor (None = undefined there:
      Unsupported); the attribute is NOT a selfattr, so any other use of it is Unsupported.
  all(..) / any(..) over a GENERATOR whose element is a call with a result of the spec's "res_bool" type
      (a filter's apply may raise):  all_r / any_r of Model/FiltLoop.v — evaluation in order, stopping at
      the first False / True or at the first abnormal result.  A list comprehension (which evaluates every
      element first) is not accepted.
  `a / b` and `a & b` on operand types the spec declares (binops keys (ta, "/.", tb) and (ta, "&", tb)).
  try: return f(..)  except E as n: raise E(..) from n      with f declared raises=E (its Coq form returns
      an option):   match f .. with Some v_ => return v_ | None => RRaise E end
  a local function with parameters that is only passed on as a value (spec "lifted": name -> dict(coq,
      captured, pre, type)): translated on its own (lambda lifting: a spec with nested=[.., name] whose
      first parameters are the captured variables) and bound here as the partial application
      `let name := (coq pre.. captured..) in`.  Sound because every captured variable is assigned exactly
      once in the enclosing function (or is a parameter that is never assigned) — checked by filt_prepare —
      so the value the closure sees when it is called later is the value at its definition.
  filt_prepare (on the FunctionDef, before translation):
      nested=[n1, n2, ..]     the definition translated is the function / method n_k nested (anywhere, but
                              exactly once) in n_(k-1) .. in the function the spec names; captured=[..] are
                              added in front of its parameters
      star_param="sources"    `*sources` is read as an ordinary parameter holding the tuple of the positional
                              arguments (a list)
      extend_as_iadd=[names]  the statement `name.extend(e)` is rewritten to `name += e` (for a list, += IS
                              extend); the spec gives ++ as the binop (L:T, "+", L:T)
      lifted_classes={C: dict(bases=.., captured=[..])}   `class C(bases): def apply(self, event): ..` local
                              to the function: checked (exactly that base text, only the method apply, the
                              captured variables never assigned, C used only as `C()`) and removed; the spec's
                              call entry for C gives the object it builds (from the lifted apply).
"""
from __future__ import annotations

import ast
import copy

from . import pysrc
from .pysrc import Unsupported, cname, EXCEPTIONS


# ------------------------------------------------------------------------------------------------ expressions
def _mentions(node, path):
    return any(isinstance(x, (ast.Attribute, ast.Name)) and ast.unparse(x) == path for x in ast.walk(node))


def _sumattr_expr(tr, sa, e, env, want):
    known = env.get("$sctor", {})
    text = ast.unparse(e)
    for path, ctor in known.items():
        if not _mentions(e, path):
            continue
        sd = sa[path]
        fields = dict(sd["ctors"])[ctor]
        names = {f: f"{sd['param']}_{f}" for f, _ in fields}
        for pat, val in sd.get("exprs", {}).get(ctor, {}).items():
            if ast.unparse(ast.parse(pat.format(x=path), mode="eval").body) == text:
                if val is None:
                    raise Unsupported(f"`{text}` is not defined when {path} is a {ctor}")
                t, ty = val
                return t.format(**names), ty
        # path.m(args) with the method table of this constructor
        if isinstance(e, ast.Call) and isinstance(e.func, ast.Attribute) and ast.unparse(e.func.value) == path:
            mt = sd.get("methods", {}).get(ctor, {})
            if e.func.attr not in mt or mt[e.func.attr] is None:
                raise Unsupported(f"method {e.func.attr} of {path} when it is a {ctor}")
            coq, argtys, ret = mt[e.func.attr]
            if e.keywords or len(e.args) != len(argtys):
                raise Unsupported(f"call shape of {ast.unparse(e.func)}")
            ts = [tr.expr(a, env, t)[0] for a, t in zip(e.args, argtys)]
            return "(" + " ".join([coq.format(**names)] + ts) + ")", ret
        # any other expression: its sub-expressions are translated on their own; a bare use of the
        # attribute that no table covers is Unsupported (it is not a selfattr)
    if isinstance(e, ast.IfExp):
        for path, sd in sa.items():
            if path in known or not _mentions(e.test, path):
                continue
            if tr.loop_depth:
                raise Unsupported("a test on a sum-typed attribute inside a loop")
            arms = []
            tr.cond_depth += 1
            try:
                for ctor, fields in sd["ctors"]:
                    for f, _ in fields:
                        fname = f"{sd['param']}_{f}"
                        if fname in tr.all_names or fname in tr.genparams:
                            raise Unsupported(f"the name {fname} is used by the function")
                    env2 = dict(env)
                    env2["$sctor"] = dict(known, **{path: ctor})
                    c, _ = tr.expr(e.test, env2, "B")
                    if c not in ("true", "false"):
                        raise Unsupported(f"the test `{ast.unparse(e.test)}` is not decided when {path} is a {ctor}")
                    live = e.body if c == "true" else e.orelse
                    t, ty = tr.expr0(live, env2, want)
                    arms.append((ctor, fields, t, ty))
            finally:
                tr.cond_depth -= 1
            ty = arms[0][3]
            for a in arms[1:]:
                ty = tr.unify(ty, a[3])
            if want is not None:
                ty = want
            if ty == "NONE":
                raise Unsupported("conditional expression of unknown option type")
            parts = []
            for ctor, fields, t, ty_a in arms:
                t = tr.coerce(t, ty_a, ty, "(arm of a match on a sum-typed attribute)")
                pat = " ".join([ctor] + [f"{sd['param']}_{f}" for f, _ in fields])
                parts.append(f"| {pat} => {t}")
            return f"(match {sd['param']} with " + " ".join(parts) + " end)", ty
    return None


def filt_expr(tr, e, env, want):
    spec = tr.spec
    sa = spec.get("sumattrs")
    if sa:
        r = _sumattr_expr(tr, sa, e, env, want)
        if r is not None:
            return r
    rb = spec.get("res_bool")
    if rb and isinstance(e, ast.Call) and isinstance(e.func, ast.Name) and e.func.id in ("all", "any") \
            and e.func.id not in env and len(e.args) == 1 and not e.keywords:
        a = e.args[0]
        if isinstance(a, ast.GeneratorExp) and not tr.mut_call_in(a.elt):
            tr.cond_depth += 1
            try:
                src, _, x, inner = tr.comp_parts(a, env)
                elt, ety = tr.expr0(a.elt, inner)
            finally:
                tr.cond_depth -= 1
            if ety == rb:
                if a.generators[0].ifs:
                    raise Unsupported(f"{e.func.id}(..) over calls that may raise, with a condition")
                comb = "all_r" if e.func.id == "all" else "any_r"
                return f"({comb} (fun {x} => {elt}) {src})", rb
        elif rb:
            # all([..]) evaluates every element before looking at any: not the same when a call raises
            if isinstance(a, ast.ListComp):
                tr.cond_depth += 1
                try:
                    _, _, _, inner = tr.comp_parts(a, env)
                    _, ety = tr.expr0(a.elt, inner)
                finally:
                    tr.cond_depth -= 1
                if ety == rb:
                    raise Unsupported(f"{e.func.id}([..]) over calls that may raise: only a generator is accepted")
    if isinstance(e, ast.BinOp) and isinstance(e.op, (ast.Div, ast.BitAnd)) and tr.binops:
        sy = "/." if isinstance(e.op, ast.Div) else "&"
        if any(k[1] == sy for k in tr.binops):
            a, ta = tr.expr0(e.left, env)
            b, tb = tr.expr0(e.right, env)
            if ta == "OZ" and pysrc.is_path(e.left) and tr.known_some(e.left, env):
                a, ta = f"(ozd {a})", "Z"
            if tb == "OZ" and pysrc.is_path(e.right) and tr.known_some(e.right, env):
                b, tb = f"(ozd {b})", "Z"
            if (ta, sy, tb) in tr.binops:
                fn, ty = tr.binops[(ta, sy, tb)]
                return f"({fn} {a} {b})", ty
            raise Unsupported(f"binary operator {sy} on {ta} and {tb}")
    return None


# ------------------------------------------------------------------------------------------------ statements
def filt_stmt(tr, s, rest, env, fin, ind):
    spec = tr.spec
    pad = "  " * ind
    lifted = spec.get("lifted", {})
    if isinstance(s, ast.FunctionDef) and s.name in lifted:
        ld = lifted[s.name]
        if tr.loop_depth or s.name in env or s.decorator_list:
            raise Unsupported(f"local function {s.name}")
        for v in ld["captured"]:
            if v not in env:
                raise Unsupported(f"the local function {s.name} captures {v}, which is not defined before it")
        # (the name is only ever passed on as a value: a call of it is "call of the local", Unsupported)
        args = list(ld.get("pre", [])) + [cname(v) for v in ld["captured"]]
        text = "(" + " ".join([ld["coq"]] + args) + ")"
        return tr.assign(s.name, text, ld["type"], env, pad, rest, fin, ind)
    if isinstance(s, ast.Try) and len(s.handlers) == 1 and s.handlers[0].name is not None:
        h = s.handlers[0]
        if s.orelse or s.finalbody or len(s.body) != 1 or rest or not isinstance(h.type, ast.Name) \
                or h.type.id not in EXCEPTIONS:
            raise Unsupported("try shape")
        b = s.body[0]
        if not (isinstance(b, ast.Return) and isinstance(b.value, ast.Call) and tr.kind == "expr"):
            raise Unsupported("try body other than `return f(..)`")
        r = h.body[0] if len(h.body) == 1 else None
        if not (isinstance(r, ast.Raise) and isinstance(r.exc, ast.Call) and isinstance(r.exc.func, ast.Name)
                and r.exc.func.id == h.type.id and isinstance(r.cause, ast.Name) and r.cause.id == h.name):
            raise Unsupported("handler other than `raise E(..) from <the caught exception>`")
        tr.in_try = True
        tr.last_raises = None
        try:
            t, ty = tr.call(b.value, env)
        finally:
            tr.in_try = False
        cs = tr.last_raises
        if cs is None or cs.get("raises") != h.type.id or ty != "O:" + tr.ret_type:
            raise Unsupported("try around a call that is not declared to raise this exception")
        ok = fin(env, "return", "v_")
        bad = fin(env, "raise", h.type.id)
        return f"{pad}match {t} with\n{pad}| Some v_ =>\n{pad}  {ok}\n{pad}| None =>\n{pad}  {bad}\n{pad}end"
    return None


# ------------------------------------------------------------------------------------------------ preparation
def _stores(node, name):
    return sum(1 for x in ast.walk(node) if isinstance(x, ast.Name) and x.id == name
               and isinstance(x.ctx, (ast.Store, ast.Del)))


def _check_captured(outer, names, inner):
    """every captured variable has one value for the whole life of the closure: a parameter of the
    enclosing function that is never assigned, or a local assigned exactly once, by a plain top-level
    `name = expr` statement of the enclosing function placed before the definition of the closure"""
    params = {a.arg for a in outer.args.posonlyargs + outer.args.args + outer.args.kwonlyargs}
    for sub in ast.walk(outer):
        if isinstance(sub, (ast.Nonlocal, ast.Global)):
            raise Unsupported("nonlocal / global in a function with a lifted closure")
    for v in names:
        n = _stores(outer, v)
        if v in params:
            if n:
                raise Unsupported(f"the captured parameter {v} is assigned")
            continue
        tops = [i for i, st in enumerate(outer.body)
                if isinstance(st, ast.Assign) and len(st.targets) == 1 and isinstance(st.targets[0], ast.Name)
                and st.targets[0].id == v]
        where = [i for i, st in enumerate(outer.body) if any(x is inner for x in ast.walk(st))]
        if n != 1 or len(tops) != 1 or not where or tops[0] >= where[0]:
            raise Unsupported(f"the captured variable {v} is not assigned exactly once before the closure")
        if any(isinstance(a.arg, str) and a.arg == v for a in ast.walk(outer) if isinstance(a, ast.arg)):
            raise Unsupported(f"the captured variable {v} is also a parameter name of a nested function")


def _find_nested(outer, name):
    found = [n for n in ast.walk(outer) if n is not outer and isinstance(n, (ast.FunctionDef, ast.ClassDef))
             and n.name == name]
    if len(found) != 1:
        raise Unsupported(f"nested definition {name} " + ("not found" if not found else "defined twice"))
    return found[0]


def filt_prepare(fdef, spec):
    fdef = copy.deepcopy(fdef)
    nested = spec.get("nested")
    if nested:
        outer, cur = fdef, fdef
        for name in nested:
            cur = _find_nested(cur, name)
        if not isinstance(cur, ast.FunctionDef):
            raise Unsupported("nested definition is not a function")
        captured = list(spec.get("captured", []))
        _check_captured(outer, captured + list(spec.get("captured_callables", [])), cur)
        a = cur.args
        if a.vararg or a.kwarg or a.kwonlyargs or a.posonlyargs or a.defaults:
            raise Unsupported("parameters of the nested function")
        own = {x.arg for x in a.args}
        if own & set(captured):
            raise Unsupported("a captured variable is shadowed by a parameter")
        # classes on the way must be plain local classes whose only member is this method
        for name in nested[:-1]:
            cd = _find_nested(outer, name)
            if isinstance(cd, ast.ClassDef):
                _check_local_class(cd, spec.get("class_bases", {}).get(name))
        a.args = [ast.arg(arg=v) for v in captured] + list(a.args)
        fdef = ast.fix_missing_locations(cur)
    sp = spec.get("star_param")
    if sp:
        a = fdef.args
        if a.vararg is None or a.vararg.arg != sp or a.kwonlyargs or a.kwarg or a.defaults:
            raise Unsupported(f"*{sp} parameter")
        a.args = list(a.args) + [ast.arg(arg=sp)]
        a.vararg = None
        if _stores(fdef, sp):
            raise Unsupported(f"the parameter *{sp} is assigned")
    ext = set(spec.get("extend_as_iadd", []))
    if ext:
        class R(ast.NodeTransformer):
            def visit_Expr(self, node):
                c = node.value
                if isinstance(c, ast.Call) and isinstance(c.func, ast.Attribute) and c.func.attr == "extend" \
                        and isinstance(c.func.value, ast.Name) and c.func.value.id in ext:
                    if len(c.args) != 1 or c.keywords or isinstance(c.args[0], ast.Starred):
                        raise Unsupported("call shape of extend")
                    return ast.AugAssign(target=ast.Name(id=c.func.value.id, ctx=ast.Store()), op=ast.Add(),
                                         value=c.args[0])
                return node
        fdef = ast.fix_missing_locations(R().visit(fdef))
    lc = spec.get("lifted_classes")
    if lc:
        for cname_, cd_spec in lc.items():
            cd = _find_nested(fdef, cname_)
            if not isinstance(cd, ast.ClassDef):
                raise Unsupported(f"{cname_} is not a local class")
            _check_local_class(cd, cd_spec["bases"])
            _check_captured(fdef, list(cd_spec["captured"]), cd)
            uses = [x for x in ast.walk(fdef) if isinstance(x, ast.Name) and x.id == cname_]
            calls = [x for x in ast.walk(fdef) if isinstance(x, ast.Call) and isinstance(x.func, ast.Name)
                     and x.func.id == cname_ and not x.args and not x.keywords]
            if len(uses) != len(calls):
                raise Unsupported(f"the local class {cname_} is used other than as {cname_}()")

        class D(ast.NodeTransformer):
            def visit_ClassDef(self, node):
                return None if node.name in lc else node
        fdef = ast.fix_missing_locations(D().visit(fdef))
        for sub in ast.walk(fdef):
            for fld in ("body", "orelse"):
                if isinstance(getattr(sub, fld, None), list) and not getattr(sub, fld) and fld == "body":
                    raise Unsupported("a block left empty by a removed class")
    return fdef


def _check_local_class(cd, bases):
    """class C(<bases>):  [@override]  def apply(self, event): ...   and nothing else"""
    if bases is None or [ast.unparse(b) for b in cd.bases] != list(bases) or cd.keywords or cd.decorator_list:
        raise Unsupported(f"bases / decorators of the local class {cd.name}")
    if len(cd.body) != 1 or not isinstance(cd.body[0], ast.FunctionDef) or cd.body[0].name != "apply":
        raise Unsupported(f"the local class {cd.name} has members other than apply")
    f = cd.body[0]
    if [ast.unparse(d) for d in f.decorator_list] not in ([], ["override"]):
        raise Unsupported(f"decorators of {cd.name}.apply")
    a = f.args
    if [x.arg for x in a.args] != ["self", "event"] or a.vararg or a.kwarg or a.kwonlyargs or a.posonlyargs \
            or a.defaults:
        raise Unsupported(f"parameters of {cd.name}.apply")
