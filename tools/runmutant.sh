#!/bin/bash
# developer helper: evaluate one seeded change against the checks.
#   tools/runmutant.sh <patch.diff> <demo.py> <prop> [<prop> ...]
# Applies the patch to a scratch worktree of /repo's HEAD (never to /repo), confirms that the
# existing suite still passes and that the demo fails with the change and passes without it,
# runs the given checks against the scratch tree, and prints a summary line.
set -u
patch=$(readlink -f "$1"); demo=$(readlink -f "$2"); shift 2
wt=/tmp/wt_eval_$$
git -C /repo worktree add -f --detach "$wt" HEAD -q || exit 2
cleanup() { git -C /repo worktree remove --force "$wt" >/dev/null 2>&1; }
trap cleanup EXIT
cd "$wt"
run_demo() {
  case "$demo" in
    *test_*.py) PYTHONPATH="$wt" timeout 300 /venv/bin/python -m pytest -q -p no:cacheprovider "$demo" >/tmp/demo_out_$$ 2>&1 ;;
    *) PYTHONPATH="$wt" timeout 300 /venv/bin/python "$demo" >/tmp/demo_out_$$ 2>&1 ;;
  esac
}
run_demo; clean_rc=$?
if ! git apply "$patch" 2>/tmp/apply_err_$$; then echo "RESULT patch does not apply: $(cat /tmp/apply_err_$$)"; exit 3; fi
PYTHONPATH="$wt" timeout 900 /venv/bin/python -m pytest -q -p no:cacheprovider --timeout=900 >/tmp/suite_out_$$ 2>&1; suite_rc=$?
run_demo; mut_rc=$?
res=""
# evidence files must come from runs against /repo itself: keep them out of reach of this run
evbak=/tmp/evidence_bak_$$; V=${VERIF_DIR:-/verif}; cp -r $V/evidence "$evbak"
for p in "$@"; do
  out=$(cd $V && CALGEBRA_REPO="$wt" ./check "$p" 2>&1 | grep -E "^VIOLATION|^KNOWN" | grep -c "^VIOLATION")
  first=$(cd $V && ls -t replays/${p}-*.json 2>/dev/null | head -1)
  res="$res $p:violations=$out"
done
rm -rf $V/evidence; mv "$evbak" $V/evidence
[ -n "${SKIP_RESTORE:-}" ] || (cd $V && ./check setup >/dev/null 2>&1)   # SKIP_RESTORE=1: scratch copies of /verif need no rebuild for /repo
echo "RESULT patch=$(basename $patch) suite_rc=$suite_rc($(tail -1 /tmp/suite_out_$$)) demo_clean_rc=$clean_rc demo_mutant_rc=$mut_rc checks:$res"
rm -f /tmp/demo_out_$$ /tmp/suite_out_$$ /tmp/apply_err_$$
