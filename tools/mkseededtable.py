#!/usr/bin/env python3
"""developer helper: print the markdown table of seeded changes vs checks (DESIGN.md 12.7)"""
import glob, json, os
rows = []
for d in sorted(glob.glob("/verif/seeded/*")):
    m = json.load(open(d + "/meta.json"))
    name = os.path.basename(d)
    caught = ", ".join(m.get("caught_by", [])) or "**none**"
    rows.append(f"| {name} | {m['property']} | {m['needs_to_manifest']} | {caught} |")
print("| seeded change | written against | needs, to manifest | caught by |")
print("|---|---|---|---|")
print("\n".join(rows))
