#!/usr/bin/env python3
"""Regenerate MANIFEST.json from the table below (developer helper; the manifest is committed)."""
import json

PROOF = "proof"
CHECKS = {
 "C01": ("Theorems about the Gallina model of the sweeps (complement coverage, merge, difference on non-overlapping sources, window clipping) re-checked by coqc; the model is tied to /repo by running model and implementation on the same generated expressions and comparing outputs, and the Coq oracle `cover_ok` (pointwise set algebra on all breakpoints) is applied to the implementation's output.",
         "5/C01", "Coq kernel + hand-written model + differential correspondence; Difference over a source stream with overlapping events is known finding KF-D1 (theorem carries that hypothesis); arbitrary-operand k-way intersection coverage rests on correspondence + oracle only"),
 "C02": ("Per-event reference semantics (Spec/Sets.v `ref`, `surv`) stated in Coq; exactness theorems for union/filter/clip on the model; correspondence + Coq oracle (multiset equality with `expected` on the exact domain, per-event survival everywhere).",
         "5/C02", "as C01; KF-D1 and KF-D2 (intersection keeps one current event per operand) are recorded known findings"),
 "C03": ("Well-formedness/ordering theorems for the model's sweeps (complement gaps, merge sortedness, stored (start,end) order via SortedList insertion) + correspondence + Coq oracle `stream_wf` on every slice.",
         "5/C03", "as C01; out-of-order fragments from KF-D1, reverse order under KF-D3"),
 "C04": ("negation lemmas (involution, order reversal) proved; forward/reverse pairs compared on the implementation by the Coq oracle (permutation + newest-first); model correspondence for both directions.",
         "5/C04", "as C01; reverse sweeps over nested events are known finding KF-D3"),
 "C05": ("locality of the reference semantics (`clipW` composition) proved; nested-window pairs compared on the implementation by the Coq oracle.",
         "5/C05", "as C02"),
 "C18": ("Theorems on the filter model (`feval`): a filtered timeline returns exactly the source events satisfying the predicate, in order; and/or are conjunction/disjunction; duration thresholds are exact rational comparisons (end-start vs k*scale), unbounded events infinitely long; one_of/has_any/has_all incl. empty collections. The predicate model is tied to properties.py by running filter trees over stored events on both sides; the Coq oracle compares the implementation's slice with the reference evaluation.",
         "5/C18", "Coq kernel + model + correspondence; Duration.apply divides in floating point: the model compares exact rationals (equivalent below 2^53 s); type errors of ill-typed comparisons are outside the generator"),
 "C06": ("`csweep_spec`: the complement sweep returns plain, window-confined, sentinel-free, strictly separated gaps whose coverage is the negation of the source's, for every sorted positive-length input; canonical lists with equal coverage are equal; correspondence + Coq oracle `canonical`.",
         "5/C06", "Coq kernel + model + correspondence; no known finding"),
}

checks = []
for pid, (text, ref, note) in CHECKS.items():
    checks.append(dict(
        property_id=pid,
        quick_cmd=f"./check {pid} --tier quick",
        thorough_cmd=f"./check {pid} --tier thorough",
        evidence_file=f"/verif/evidence/{pid}.json",
        replay_cmd_template=f"./check {pid} --replay {{path}}",
        engine="coq-model+correspondence",
        level_claimed=dict(category=PROOF, text=text, design_ref=ref),
        level_note=note,
        technique="Coq theorems on a Gallina model + differential correspondence evaluated by vm_compute",
    ))

ALL = [f"C{n:02d}" for n in range(1, 21)]
na = [dict(property_id=p, reason="not yet built in this round (planned, see DESIGN.md section 5); no check is registered so nothing is claimed")
      for p in ALL if p not in CHECKS]

m = dict(
    version=1,
    setup_cmd="cd /verif && ./check setup",
    hooks=dict(guard="CALGEBRA_VERIF", enable="no source hooks are needed: checks import /repo directly (PYTHONPATH=/repo) and inject fakes by replacing module globals",
               baseline_off_cmd="cd /repo && /venv/bin/python -m pytest -ra -q -p no:cacheprovider --timeout=900 --continue-on-collection-errors",
               source_commits=[], add_only=True),
    engines=[dict(name="coq-model+correspondence", path="/verif/check", serves_properties=list(CHECKS),
                  kind_free_text="Coq 8.16 development (coq/) + Python harness (harness/) that evaluates model and oracles with vm_compute on cases run against /repo")],
    checks=checks,
    not_applicable=na,
    notes="See DESIGN.md. Known findings are listed in known-findings.txt with witnesses under findings/.",
)
json.dump(m, open("/verif/MANIFEST.json", "w"), indent=1)
print("checks:", len(checks), "not_applicable:", len(na))
