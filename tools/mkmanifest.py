#!/usr/bin/env python3
"""Regenerate MANIFEST.json from the table below (developer helper; the manifest is committed).
A property is listed under `checks` only if its check exists (harness module defines it) and its
theorem file coq/Props/<id>.v states at least one theorem with Print Assumptions; otherwise it is
listed under not_applicable with the reason."""
import json
import os
import re
import subprocess

PROOF = "proof"
TECH = ("Coq theorems about a Gallina model; the model is tied to /repo on every run by a differential correspondence "
        "(model evaluated with vm_compute on the cases the implementation ran) and, for the translated functions, by "
        "Gallina definitions regenerated from the Python source text and proved equal to the model (tie C)")
T = {
 "C01": ("`C01_set_algebra`: for every expression tree in the decidable domain `good` (any stored events — overlapping, nested, adjacent, duplicated, unbounded — under | & - ~ flatten and leaf filters; operands of & and sources of - internally non-overlapping) and every window, covers(slice) = window AND pointwise Boolean denotation; per-sweep theorems for union (any streams), complement (any sorted stream), difference (arbitrary subtractors), k-way intersection, window clipping. Model tied to /repo by running both on generated expression trees (aliased leaves included); the Coq oracle `cover_ok` is applied to the implementation's output on all breakpoints; Complement._sweep / Complement.fetch / Difference._sweep / MemoryTimeline._fetch_static / _SolidTimeline.fetch / finite_start / finite_end are re-translated from the source text on every run and proved equal to the model (`C01_source_*`, e.g. `C01_source_difference_cover`).",
         "5/C01", "Coq kernel; hand-written model + correspondence; difference over a source stream with overlapping events is known finding KF-D1 (the theorem's domain excludes it, `C01_difference_overlap_refuted` keeps the witness); coverage of intersections over internally overlapping operands rests on correspondence + oracle"),
 "C02": ("`C02_events_exact`: on `good` trees the slice is, as a multiset, the clip of the window-independent reference evaluation `ref` (each source event once per surviving part, payload intact); sweep-level exactness for union, filter, difference (list equality with `minus_runs`), k-way intersection (permutation of `inter_ref`), never-invents theorems without any domain restriction. Oracle on the implementation: multiset equality with `expected` on the exact domain, per-event survival (`events_weak_ok`) everywhere.",
         "5/C02", "as C01; KF-D1 and KF-D2 (intersection keeps one current event per operand) are known findings with refuted-theorem witnesses"),
 "C03": ("`C03_forward_wf` (every forward slice of a `good` tree: non-empty elements inside the window, no sentinel, non-decreasing starts), `sl_build_sorted` (stored (start,end) order for every insertion history), per-sweep order theorems incl. reverse union; correspondence + Coq oracle `stream_wf` on slices of all operators, transforms and caches in both directions.",
         "5/C03", "as C01; out-of-order fragments under KF-D1, reverse order under KF-D3"),
 "C04": ("`bounds_swap` (every expression), reverse = reversed forward for stored timelines, unions (permutation + newest first), complements and differences (list equality on the monotone-ends domain), `negate_sorted_iff_monotone_ends` (the exact boundary of the time-negation trick), `last_n`; forward/reverse pairs of the implementation judged by the Coq oracle (same multiset, newest first) incl. caches.",
         "5/C04", "as C01; nested events under a negated sweep are known finding KF-D3; k-way intersection reverse rests on correspondence + oracle; recurring sources and the Google adapter are covered by C08/C20"),
 "C05": ("`C05_locality`: on `good` trees a nested window returns exactly the clip of the wider result; `expected_local`; nested-window pairs and cache paging histories of the implementation judged by the Coq oracle.",
         "5/C05", "as C02; recurring sources are covered by C08 (`fetch_window_independent`)"),
 "C06": ("`csweep_spec`: the complement sweep returns plain, window-confined, sentinel-free, strictly separated gaps covering exactly the uncovered instants, for EVERY sorted positive-length input; `canonical_unique`, `flatten_idempotent`, `compl_triple` (Proofs/Canon.v); `C06_source_complement_canonical_and_exact`: the same theorem about the Gallina translation of Complement._sweep's SOURCE TEXT regenerated on every run (tie C); correspondence + Coq oracle `canonical` on nestings of ~, flatten, & over masks incl. non-canonical unions of masks under them.",
         "5/C06", "Coq kernel + model + correspondence; no known finding"),
 "C07": ("`C07_forward_exact`: whenever the forward fetch of the model returns, it returns EXACTLY the occurrences of the bi-infinite phase-aligned series (`Spec/RecurSpec.v`: one occurrence per matching local date) that end after the window start and start at or before its end, minus exdates, ascending — every frequency, interval, BYDAY (plain or n-th), BYMONTHDAY, BYMONTH, BYSETPOS, anchored or time-of-day, any duration and window, any zone whose offsets differ by at most half a day; `C07_forward_total` (no exception, fuel suffices); strictly increasing starts; calendar lemmas (one full 400-year era enumerated in the kernel + periodicity), anchor phase/template/look-back theorems. `C07_source_forward_exact`: the same about the Gallina translation of _fetch_forward's SOURCE TEXT (tie C). The rrule model is checked against dateutil/zoneinfo and the whole model against RecurringPattern on every run; the oracle on the implementation is the independent per-local-date series.",
         "5/C07", "dateutil.rrule and zoneinfo are external: modelled and validated differentially on every run, not verified; KF-MIXED-BYDAY (dateutil reads mixed plain/n-th BYDAY as a conjunction)"),
 "C08": ("`C08_fetch_window_independent` (the answer to a window is the restriction of the answer to any wider window — a corollary of `C07_forward_exact`), `C08_forward_no_raise`, `C08_safe_anchor_total`, `C08_forward_fuel_enough`, `C08_reverse_exact` (reverse iteration = the spec's occurrences newest first, each once), `C08_safe_anchor_total_all` (days 29-31 and 29 February included), `C08_source_reverse_is_model` / `C08_source_safe_anchor_is_model` (tie C), reverse = reversed forward (`pager_exactly_once`), phase kept arbitrarily far from the anchor (`anchor_phase`), look-back sufficient for durations longer than the period; model tied to RecurringPattern on every run.",
         "5/C08", "as C07; KF-ANCHOR-YEAR1-C08: a 29-February anchor asked about a window before the anchor within a few years of year 1 raises"),
 "C09": ("`C09_mask_observational` (mask sources: for EVERY history incl. source mutations and ANY source events the covered time inside the window is identical, fragments positive, ordered) and `C09_observational`: for EVERY history of bounded queries and clock advances (any ttl>0, any clock granularity incl. equal consecutive readings) over any keyed source with unique keys, the next query returns exactly the source's clipped slice, each event whole and once, in order; `sink_inv_reachable` (the stitched/fractured sink is determined by the live segments). Model tied to cache.py by histories run with a fake clock; trace oracle on the implementation.",
         "5/C09", "Coq kernel + model + correspondence; integer fake clock (float rounding of created+ttl not modelled); order among equal-span fragments compared as multisets (Python set iteration order)"),
 "C10": ("`C10_staleness_versions` / `C10_change_visible` (for EVERY history with source mutations: an event still showing the fields from before a mutation is only ever served while that mutation is less than ttl old, across stitches and partial expiry — Proofs/CacheStale.v), `heap_inv_reachable`, `fresh_covers_only` (a segment survives eviction iff fetched less than ttl ago), `economy` (source fetches = exactly the maximal parts of the window not covered by fresh segments), `no_refetch_while_fresh`, for every reachable state incl. source mutations; trace oracle on the implementation's fetch log with clock readings and version numbers.",
         "5/C10", "as C09"),
 "C11": ("(1) `lock_discipline facts = true` re-proved on every run against Gen/LockFacts.v regenerated from the AST of cache.py (every shared-field access inside `with self._lock`, no yield while holding it, no nested acquisition, lazily evaluated helpers materialised inside); (2) generic theorems for all thread counts, programs and schedules: mutual exclusion, serializability in lock-acquisition order, no deadlock, and with C09: every thread's result is the source's slice and the cache is correct afterwards; (3) real threads under a deterministic scheduler: every placement of 0/1 preemptions at statement granularity, judged against the Coq model's serial run.",
         "5/C11", "threading.Lock semantics and CPython's sub-statement preemption are runtime behaviour the model cannot exhibit (named in assumptions); AST extractor trusted, fail-closed"),
 "C12": ("`C12_history`: for EVERY operation history the model's observable trace (every success flag, every slice in both directions) is that of the abstract machine (bag of intervals + series minus removed instances); `C12_flags` (success iff effect; failed removal leaves the state literally unchanged); metadata merge. Tied to memory.py by operation histories on the real MemoryTimeline.",
         "5/C12", "stored series are daily UTC patterns (arithmetic progressions); general rules are C07/C08"),
 "C13": ("Gallina model of metrics.py (period windows in local wall-clock time, totals over flattened coverage, counts, extrema, ratio as exact rational, group_by) tied to the code on every run; independent spec `measure`; additivity and window theorems under an explicit zone hypothesis.",
         "5/C13", "zoneinfo external (tables exported per run); KF-M1/M2/M3: period windows go wrong when a period boundary falls inside a DST transition's wall-clock stretch, when a shift exceeds the stepping unit, or when the range ends on a transition; final int/int float division trusted"),
 "C14": ("operational pull-machine model of the operators (per-source pull counters mirroring generator suspension points) tied to the code by instrumented sources counting next(); theorems: composing pulls nothing, outputs depend only on the pulled prefixes, refinement to the list model for ALL operators incl. difference (`C14_pull_eq_list_all_operators`), bounded termination, and `C14_prefix_of_bounded_partial`: the first n results of an open-ended slice equal those of every sufficiently long bounded query with EQUAL pull counters (complement-free expressions).",
         "5/C14", "generator suspension itself is runtime behaviour; infinite sources are periodic UTC patterns"),
 "C15": ("(1) `purity_discipline facts = true` re-proved on every run against Gen/PurityFacts.v regenerated from the AST of the read paths (no attribute store, container mutation or global rebinding in any fetch/sweep/__getitem__/overlapping/apply method); (2) coercion theorems: aware datetimes of any zone and ints denoting the same instant give the same slice, naive/foreign bounds are TypeErrors, other steps ValueErrors; (3) two iterators over one expression consumed under random interleavings + a third evaluation all equal the model's slice.",
         "5/C15", "int(dt.timestamp()) goes through a float (exact below 2^53 s); the cache is the stated exception to purity; AST extractor trusted, fail-closed"),
 "C16": ("overlapping(p) = members of the unbounded evaluation containing p: exact for stored timelines (no hypotheses), unions/leaf filters/buffers, differences with any subtractors however far they reach (`diff_overlapping_spec_gen`), complements over non-overlapping sources (`compl_overlapping_expected`); correspondence + Coq oracle on the property's expression class with points inside, on the edges of and outside every interval.",
         "5/C16", "complement's left edge uses the reverse sweep: nested source events are KF-D3; KF-D1/KF-D2 inherited; recurring leaves are covered through C08"),
 "C17": ("`mw_spec` (merge_within meets the declarative connected-components spec for every sorted source incl. nested and unbounded events), `mw_far_apart`, `mw_group_shape`, `mw_window_global_stored`; `buf_reach_in`, `buf_fetch_sound`, `buf_clip_exact`, `C17_buffer_chain_rejects` (a negative amount is rejected at every level of nested buffers); `C17_source_merge_within_spec`: the merge_within spec proved of the Gallina translation of _MergedWithin._fetch_forward's SOURCE TEXT (tie C; likewise _Buffered.fetch); correspondence + Coq oracles on buffer slices and merge_within fetches in both directions.",
         "5/C17", "Coq kernel + model + correspondence; no known finding"),
 "C18": ("filtered timeline = exactly the source events satisfying the predicate, in order; and/or = conjunction/disjunction; duration thresholds as exact rational comparisons, unbounded = infinitely long; one_of/has_any/has_all incl. empty collections and one-shot iterables; property-vs-property comparisons; filter | timeline rejected for every operand shape; predicate model tied to properties.py by filter trees over stored events, over intersections, and filter.apply on single events incl. zero-length and unbounded ones.",
         "5/C18", "Duration.apply divides in floating point: the model compares exact rationals (equivalent below 2^53 s); ill-typed comparisons are outside the generator"),
 "C19": ("abstract VEVENT model (`to_vevent`/`of_vevent`, `rrule_text`/`parse_rrule`) with round-trip theorems; tied to ical.py by really writing and loading .ics files and by expanding the emitted RRULE with dateutil.rrulestr on every run.",
         "5/C19", "the text layer (icalendar) and the reference parser (dateutil.rrulestr) are external; recorded known findings for residues (pre-DTSTART occurrences of loaded series, fixed-offset zones, non-UTC all-day)"),
 "C20": ("model of the adapter's conversions, reverse pager and write path over a simulated backend state machine with failure schedules; `guard_discipline facts = true` re-proved against Gen/GuardFacts.v regenerated from gcsa.py; pager exactly-once, span exactness, add-then-read, fault containment and `C20_remove_instance_exact` (removing an instance excludes exactly that occurrence, also of series with UNTIL / COUNT written by another client) theorems; histories incl. aimed removals and failures at every backend call index.",
         "5/C20", "the Google API and the gcsa object layer are replaced by a simulation (trusted); zoneinfo external"),
}


def ready(pid):
    p = f"/verif/coq/Props/{pid}.v"
    if not os.path.exists(p) or "Print Assumptions" not in open(p).read():
        return False, "theorem file not yet written"
    out = subprocess.run(["/bin/bash", "-c", "cd /verif && PYTHONPATH=/repo:/verif /venv/bin/python -c \"from harness.main import all_checks; print(' '.join(sorted(all_checks())))\""],
                         capture_output=True, text=True).stdout
    if pid not in out.split():
        return False, "check not yet built"
    return True, ""


# third extension of tie C (DESIGN 12.18): what is additionally stated of the code text, per property
EXTRA = {
 "C01": " Third extension of tie C: the constructors and the operator dispatch (Timeline.__or__ / __and__ / __sub__ / __invert__, _flatten_sources, the __init__ of every node class, every _is_mask, Interval.__post_init__) regenerated from the source text (`C01_source_or_and_dispatch`, `C01_source_is_mask`, `C01_source_union_ctor_is_or`, ...).",
 "C03": " Tie C: the code that orders results regenerated from the source text — Union.fetch's merge keys, MemoryTimeline.fetch, the store's sort key, the reverse pager of recurring patterns (`C03_source_*`).",
 "C05": " Tie C: the code locality rests on regenerated from the source text — the clip of Timeline.__getitem__, the widening of _Buffered.fetch, the look-back of RecurringPattern._fetch_forward and its reverse pager (`C05_source_*`).",
 "C06": " `C06_source_intersection_is_model` (Intersection._sweep as the code has it); `is_mask_is_source`: the model's mask flag is the one the regenerated _is_mask definitions of all classes compute.",
 "C07": " RecurringPattern.__init__ (seven fragments tiling its body) regenerated from the source text: `src_init_rule_accepted`, `g_rp_init_eq`.",
 "C08": " The public fetch() dispatcher regenerated from the source text (`g_recur_fetch_eq`).",
 "C09": " CachedTimeline.__init__ and _get_key regenerated from the source text (`g_cached_init_is_cinit`, `g_cache_get_key_model`).",
 "C12": " MemoryTimeline._remove_interval / _remove_recurring_instance / _remove_series / _add_interval / _add_recurring (id and metadata part) / fetch and the dispatch of MutableTimeline.add / remove / remove_series regenerated from the source text and proved equal to mstep / mfetch (`C12_source_*`, Proofs/GenEq_mem.v).",
 "C13": " All of metrics.py regenerated from the source text (aggregation helpers, closures, _period_windows, _windowed_agg, _grouped_agg, the five public functions; `C13_source_*`, Proofs/GenEq_met.v; no division by zero in the code text: `g_cov_agg_den_pos`).",
 "C14": " Timeline.__getitem__ (the clip of every bounded or half-open slice) regenerated from the source text (`C14_source_getitem_is_model`).",
 "C16": " Tie C also for the stored timelines overlapping() reads: MemoryTimeline._fetch_static, fetch and _remove_interval as the code has them (`C16_source_fetch_static_is_model`, ...).",
 "C17": " buffer() / merge_within() validation, _Buffered / _MergedWithin constructors and the reverse branch of _MergedWithin.fetch regenerated from the source text (`g_buffer_rejects_negative`, `g_buffer_chain_eq`, `g_merge_within_fetch_is_model`).",
 "C18": " properties.py and the Filter classes regenerated from the source text with a value-level model that also says where Python raises (`C18_source_filter_apply_is_feval`, `C18_source_time_filters_are_feval`, Proofs/GenEq_filt*.v).",
 "C19": " rrule_kwargs_to_rrule_string / to_rrule_string regenerated from the source text (`src_rrule_text_roundtrip`, Proofs/GenEq_rec.v).",
 "C20": " 23 functions of gcsa.py regenerated from the source text (_infer_is_all_day, _fetch_reverse: `src_fetch_reverse_exactly_once`, _fetch_forward, the add paths, _add_recurring with the wall-clock series end and the same-zone all-day test, _remove_recurring_instance, the error wrapper; `C20_source_*`, Proofs/GenEq_gcsa*.v).",
}

checks, na = [], []
for pid, (text, ref, note) in sorted(T.items()):
    text = text + EXTRA.get(pid, "")
    ok, why = ready(pid)
    if not ok:
        na.append(dict(property_id=pid, reason=f"not claimed yet: {why} (planned, DESIGN.md section {ref})"))
        continue
    checks.append(dict(
        property_id=pid,
        quick_cmd=f"./check {pid} --tier quick",
        thorough_cmd=f"./check {pid} --tier thorough",
        evidence_file=f"/verif/evidence/{pid}.json",
        replay_cmd_template=f"./check {pid} --replay {{path}}",
        engine="coq-model+correspondence",
        level_claimed=dict(category=PROOF, text=text, design_ref=ref),
        level_note=note,
        technique=TECH,
    ))

m = dict(
    version=1,
    setup_cmd="cd /verif && ./check setup",
    hooks=dict(guard="CALGEBRA_VERIF",
               enable="no source hooks are needed: checks import /repo directly (PYTHONPATH=/repo) and inject fakes (clock, lock, sources, Google client) by replacing module globals or constructor arguments",
               baseline_off_cmd="cd /repo && /venv/bin/python -m pytest -ra -q -p no:cacheprovider --timeout=900 --continue-on-collection-errors",
               source_commits=[], add_only=True),
    engines=[dict(name="coq-model+correspondence", path="/verif/check", serves_properties=[c["property_id"] for c in checks],
                  kind_free_text="Coq 8.16 development (coq/) + Python harness (harness/) evaluating models and oracles with vm_compute on cases run against /repo")],
    checks=checks,
    not_applicable=na,
    notes="See DESIGN.md. Known findings: known-findings.txt with witnesses under findings/. Seeded changes used to validate the checks: seeded/.",
)
json.dump(m, open("/verif/MANIFEST.json", "w"), indent=1)
print("checks:", [c["property_id"] for c in checks])
print("not_applicable:", [n["property_id"] for n in na])
