#!/usr/bin/env python3
"""developer helper: copy a confirmed seeded change into /verif/seeded/<name>/ with its meta.json
   usage: saveseeded.py <srcdir> <n> <name> <property> <caught_by comma list|none> <needs...>"""
import json, shutil, sys, os
src, n, name, prop, caught = sys.argv[1:6]
needs = " ".join(sys.argv[6:])
d = f"/verif/seeded/{name}"
os.makedirs(d, exist_ok=True)
shutil.copy(f"{src}/mut{n}.diff", f"{d}/patch.diff")
shutil.copy(f"{src}/demo{n}.py", f"{d}/demo.py")
if os.path.exists(f"{src}/notes{n}.md"):
    shutil.copy(f"{src}/notes{n}.md", f"{d}/notes.md")
meta = dict(property=prop, needs_to_manifest=needs,
            produced_by="fresh sub-agent given only the property text and a scratch worktree of /repo",
            confirmed=["patch applies to /repo HEAD in a scratch worktree (tools/runmutant.sh)",
                       "existing suite: 468 passed with the change",
                       "demo.py exits 0 on the unchanged tree and non-zero with the change"],
            checks_run_against_it=("CALGEBRA_REPO=<scratch worktree with the patch> ./check <prop> (quick tier, default seed)"),
            caught_by=[c for c in caught.split(",") if c and c != "none"],
            missed=(caught == "none"))
json.dump(meta, open(f"{d}/meta.json", "w"), indent=1)
print("saved", d)
