#!/bin/bash
# developer helper: rewrite coq/Gen/Source.v from the tree $1 (default /repo), print what could not be translated
cd "$(dirname "$0")/.."
PYTHONPATH=$(pwd) /venv/bin/python - "${1:-/repo}" <<'PY'
import sys
from pathlib import Path
from harness.translate import srcspecs
errors, _ = srcspecs.regenerate(Path(sys.argv[1]), Path("coq"))
print("untranslatable =", errors)
PY
