#!/bin/bash
# developer helper (tie C): what does a seeded change do to the generated definitions and their proofs?
#   tools/tiec_mutant.sh <seeded change name> [<work dir>]
# Applies seeded/<name>/patch.diff to a scratch COPY of /repo/calgebra (never to /repo), regenerates
# Gen/Source.v from it into a COPY of coq/ and compiles Source.v and every Proofs/GenEq*.v there.
# Prints one line:  <name> | changed definitions | not translated | GenEq files that no longer compile
set -u
here=$(cd "$(dirname "$0")/.." && pwd)
name=$1; work=${2:-/tmp/tiec_mut_$$}
patch=$here/seeded/$name/patch.diff
wt=$work/repo
rm -rf "$work"; mkdir -p "$work"
mkdir -p "$wt" && cp -r /repo/calgebra "$wt/calgebra"      # (a plain copy of the sources: /repo is not touched)
cleanup() { rm -rf "$work"; }
trap cleanup EXIT
base=/repo; note=""
if ! (cd "$wt" && git apply --unsafe-paths "$patch" 2>"$work/apply.err"); then
  # written against an earlier commit of /repo: try HEAD~1, HEAD~2 (the comparison is then with that commit)
  ok=0
  for back in 1 2 3; do
    rm -rf "$wt" "$work/base"; mkdir -p "$wt" "$work/base"
    git -C /repo archive "HEAD~$back" calgebra | tar -x -C "$wt"
    git -C /repo archive "HEAD~$back" calgebra | tar -x -C "$work/base"
    if (cd "$wt" && git apply --unsafe-paths "$patch" 2>"$work/apply.err"); then ok=1; base="$work/base"; note=" [against /repo HEAD~$back]"; break; fi
  done
  if [ $ok = 0 ]; then echo "$name | PATCH DOES NOT APPLY: $(head -1 "$work/apply.err")"; exit 3; fi
fi
cp -r "$here/coq" "$work/coq"
cd "$here"
PYTHONPATH="$here" /venv/bin/python - "$wt" "$work/coq" "$base" <<'PY' > "$work/summary.txt"
import re, sys
from pathlib import Path
from harness.translate import srcspecs, pysrc
def defs(text):
    out = {}
    for blk in re.split(r"\n(?=\(\* calgebra/)", text):
        m = re.search(r"Definition (\w+)", blk)
        if m:
            out[m.group(1)] = re.split(r"\n\(\* \w+: NOT TRANSLATED", blk.split("\n", 1)[1])[0].strip()
    return out
base, _ = pysrc.translate_all(Path(sys.argv[3]), srcspecs.SPECS, srcspecs.HEADER)
mut, errors = pysrc.translate_all(Path(sys.argv[1]), srcspecs.SPECS, srcspecs.HEADER)
(Path(sys.argv[2]) / "Gen" / "Source.v").write_text(mut)
b, m = defs(base), defs(mut)
changed = sorted(k for k in b if k in m and b[k] != m[k])
absent = sorted(k for k in b if k not in m)
print(",".join(changed) or "-")
print(",".join(f"{k} ({errors.get(k, '?')[:70]})" for k in absent) or "-")
PY
changed=$(sed -n 1p "$work/summary.txt"); absent=$(sed -n 2p "$work/summary.txt")
cd "$work/coq"
C="timeout 900 coqc -Q . CG -w -notation-overridden,-deprecated-hint-without-locality,-deprecated-syntactic-definition"
broken=""
if [ "$changed" = "-" ] && [ "$absent" = "-" ]; then
  echo "$name$note | - | - | (generated text identical: the change is outside the translated functions)"; exit 0
fi
if ! $C Gen/Source.v >/dev/null 2>&1; then broken="Gen/Source.v(!)"; fi
for n in "" 2 3 4 5 6 7 8 9 10 11 12 _rec _rec_fetch _rec_init; do
  f=Proofs/GenEq$n.v
  [ -f "$f" ] || continue
  if ! $C "$f" >"$work/out.txt" 2>&1; then broken="$broken GenEq$n"; fi
done
echo "$name$note | $changed | $absent | ${broken:-NONE (the proofs still go through)}"
