#!/bin/bash
# developer helper: false-alarm control.  tools/seedsweep.sh <tier> <seed> [<seed> ...]
# Builds the development and runs every check once per seed on the tree under test; prints one
# line per (seed, check) and the VIOLATION lines if any.
cd "$(dirname "$0")/.."
tier=$1; shift
./check setup > /dev/null 2>&1 || { echo "setup failed"; exit 2; }
for seed in "$@"; do
  for i in 01 02 03 04 05 06 07 08 09 10 11 12 13 14 15 16 17 18 19 20; do
    s=$(date +%s)
    out=$(VERIF_SEED=$seed ./check C$i --tier $tier 2>&1); rc=$?
    e=$(date +%s)
    echo "seed=$seed C$i rc=$rc $((e-s))s"
    if [ $rc -ne 0 ]; then echo "$out" | grep -E "VIOLATION|Error|Traceback" | head -5; for f in $(echo "$out" | grep -o 'replay=[^ ]*' | cut -d= -f2); do echo "--- $f"; head -c 3000 "$f"; echo; done; fi
  done
done
