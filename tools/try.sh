#!/bin/bash
# developer helper: run checks for the given properties and show replays + evidence summary
cd /verif
rm -f replays/*
for p in "$@"; do
  ./check $p ${TIER:+--tier $TIER} 2>&1 | grep -v "conda" | tail -${TAILN:-4}
done
for p in "$@"; do python3 tools/showreplays.py $p; done
