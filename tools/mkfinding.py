#!/usr/bin/env python3
"""developer helper: turn a replay file into a findings/<id>.json witness (run by hand, never by a check)"""
import json, sys
rp, fid, sig = sys.argv[1], sys.argv[2], sys.argv[3]
d = json.load(open(rp))
out = dict(id=fid, property=d["property"], signature=sig, expression=d.get("expression"), case=d["case"],
           impl_output_when_recorded=d.get("impl_output"), model_output_when_recorded=d.get("model_output"))
json.dump(out, open(f"/verif/findings/{fid}.json", "w"), indent=1)
print("wrote", fid)
