#!/bin/bash
# developer helper: tools/evalnew.sh <Cxx> <mN> [<check> ...]   evaluates /tmp/mutout/<Cxx>/<mN> (default check: <Cxx>)
p=$1; m=$2; shift 2
checks="${@:-$p}"
d=${MUTOUT:-/tmp/mutout}/$p/$m
[ -f $d/patch.diff ] || { echo "RESULT $p/$m missing patch"; exit 1; }
${VERIF_DIR:-/verif}/tools/runmutant.sh $d/patch.diff $d/demo.py $checks 2>&1 | grep RESULT | sed "s|^RESULT|RESULT $p/$m|"
