#!/usr/bin/env python3
"""Print the replay files and a one-line summary of evidence files (developer helper)."""
import glob
import json
import sys

pat = sys.argv[1] if len(sys.argv) > 1 else "C"
for f in sorted(glob.glob(f"/verif/replays/{pat}*.json")):
    d = json.load(open(f))
    if "expression" in d:
        print(f.split("/")[-1], d["expression"], d.get("queries"))
        print("    impl ", d.get("impl_output"))
        print("    model", d.get("model_output"), "corr", d.get("correspondence_agrees"), "dom", d.get("in_known_finding_free_domain"))
    else:
        s = json.dumps(d, default=str)
        print(f.split("/")[-1], s[:1500])
for f in sorted(glob.glob(f"/verif/evidence/{pat}*.json")):
    d = json.load(open(f))
    c = d["coverage"]
    print(d["property_id"], "viol", d.get("violations"), "wall", d["wall_s"],
          {k: c.get(k) for k in ("obligations", "discharged", "evaluations", "distinct_nontrivial",
                                 "correspondence_disagreements",
                                 "oracle_failures_attributed_to_known_findings")})
