#!/bin/bash
# developer helper: print the translation of the functions whose generated name matches $1 (tree: $2 or /repo)
cd "$(dirname "$0")/.."
PYTHONPATH=$(pwd) /venv/bin/python - "$1" "${2:-/repo}" <<'PY'
import sys, re
from pathlib import Path
from harness.translate import srcspecs, pysrc
text, errors = pysrc.translate_all(Path(sys.argv[2]), srcspecs.SPECS, srcspecs.HEADER)
for k, v in errors.items():
    print("NOT TRANSLATED", k, v)
for blk in text.split("\n\n(* ")[1:]:
    m = re.search(r"Definition (\w+)", blk)
    if m and re.search(sys.argv[1], m.group(1)):
        print("(* " + blk)
PY
